//@ target: pdf/src/backend.rs
// C01: range arithmetic of the byte backend and the header search never panic and return what they document (all usize values).
use super::*;

fn nofmt(_a: std::fmt::Arguments<'_>) -> String { String::new() }
fn okr<T>(r: Result<T>) -> Option<T> { match r { Ok(v) => Some(v), Err(e) => { std::mem::forget(e); None } } }

/// IndexRange::to_range for the four range kinds: Some(range) iff start <= end <= len (missing bounds default to 0 / len)
#[kani::proof]
#[kani::stub(std::fmt::format, nofmt)]
fn backend_to_range_total() {
    let (a, b, len): (usize, usize, usize) = (kani::any(), kani::any(), kani::any());
    let r1 = okr((a..b).to_range(len));
    assert!(match &r1 { Some(r) => a <= b && b <= len && r.start == a && r.end == b, None => !(a <= b && b <= len) });
    let r2 = okr((a..).to_range(len));
    assert!(match &r2 { Some(r) => a <= len && r.start == a && r.end == len, None => a > len });
    let r3 = okr((..b).to_range(len));
    assert!(match &r3 { Some(r) => b <= len && r.start == 0 && r.end == b, None => b > len });
    let r4 = okr((..).to_range(len));
    assert!(matches!(&r4, Some(r) if r.start == 0 && r.end == len));
}

/// Backend::read on a byte vector: a slice of exactly the requested range or an error, for every range
#[kani::proof]
#[kani::stub(std::fmt::format, nofmt)]
fn backend_read_total() {
    let data: [u8; 4] = kani::any();
    let v: Vec<u8> = data.to_vec();
    let (a, b): (usize, usize) = (kani::any(), kani::any());
    let r = okr(v.read(a..b));
    assert!(match &r { Some(s) => a <= b && b <= 4 && s.len() == b - a && (b == a || s[0] == data[a]), None => !(a <= b && b <= 4) });
    let r = okr(v.read(a..));
    assert!(match &r { Some(s) => a <= 4 && s.len() == 4 - a, None => a > 4 });
    std::mem::forget(v);
}

/// header search: the first position of "%PDF-" (None if absent), on every 7-byte buffer
#[kani::proof]
#[kani::stub(std::fmt::format, nofmt)]
fn backend_locate_header() {
    let data: [u8; 7] = kani::any();
    let v: Vec<u8> = data.to_vec();
    let got = okr(v.locate_start_offset());
    let at = |i: usize| data[i] == b'%' && data[i + 1] == b'P' && data[i + 2] == b'D' && data[i + 3] == b'F' && data[i + 4] == b'-';
    let want = if at(0) { Some(0) } else if at(1) { Some(1) } else if at(2) { Some(2) } else { None };
    assert!(got == want);
    std::mem::forget(v);
}
