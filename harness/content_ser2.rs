//@ target: pdf/src/content.rs
// C08 writer half, attempt 2: <f32 as Display>::fmt is a recording stub that writes NOTHING (so the output text only consists
// of the constant pieces: separators and operator keywords) and logs the numbers in the order they are written.
use super::*;

fn nofmt(_a: std::fmt::Arguments<'_>) -> String { String::new() }
static mut FLOG: [u32; 16] = [0; 16];
static mut FN: usize = 0;
fn f32_log(v: &f32, _f: &mut fmt::Formatter<'_>) -> fmt::Result {
    unsafe { if FN < 16 { FLOG[FN] = v.to_bits(); } FN += 1; }
    Ok(())
}
fn fin(v: f32) -> f32 { kani::assume(v.is_finite()); v }
fn pt() -> Point { Point { x: fin(kani::any()), y: fin(kani::any()) } }
fn logged(i: usize) -> f32 { unsafe { f32::from_bits(FLOG[i]) } }
/// operator keywords in order of appearance (tokens made of letters / ' " *), numbers are absent from the text
fn keywords(out: &[u8], kw: &mut [[u8; 3]; 4]) -> usize {
    let mut n = 0; let mut i = 0;
    while i < out.len() {
        let c = out[i];
        if c.is_ascii_alphabetic() || c == b'\'' || c == b'"' || c == b'*' {
            let mut k = [0u8; 3]; let mut j = 0;
            while i < out.len() && (out[i].is_ascii_alphabetic() || out[i] == b'\'' || out[i] == b'"' || out[i] == b'*') { if j < 3 { k[j] = out[i]; } j += 1; i += 1; }
            if n < 4 { kw[n] = k; } n += 1;
        } else { i += 1; }
    }
    n
}

/// [MoveTo p0, CurveTo{c1,c2,p}]: whichever of c / v / y is written, operator and logged operands denote the same curve
#[kani::proof]
#[kani::stub(std::fmt::format, nofmt)]
#[kani::stub(<f32 as std::fmt::Display>::fmt, f32_log)]
fn content_ser2_move_curve() {
    let p0 = pt(); let c1 = pt(); let c2 = pt(); let p = pt();
    let ops = vec![Op::MoveTo { p: p0 }, Op::CurveTo { c1, c2, p }];
    let out = serialize_ops(&ops).unwrap();
    let mut kw = [[0u8; 3]; 4];
    let n = keywords(&out, &mut kw);
    assert!(n == 2 && kw[0] == [b'm', 0, 0]);
    assert!(logged(0) == p0.x && logged(1) == p0.y);
    let total = unsafe { FN };
    let (g1, g2, gp) = if kw[1] == [b'c', 0, 0] && total == 8 {
        (Point { x: logged(2), y: logged(3) }, Point { x: logged(4), y: logged(5) }, Point { x: logged(6), y: logged(7) })
    } else if kw[1] == [b'v', 0, 0] && total == 6 {
        (p0, Point { x: logged(2), y: logged(3) }, Point { x: logged(4), y: logged(5) })
    } else if kw[1] == [b'y', 0, 0] && total == 6 {
        (Point { x: logged(2), y: logged(3) }, Point { x: logged(4), y: logged(5) }, Point { x: logged(4), y: logged(5) })
    } else { assert!(false); return; };
    assert!(g1 == c1 && g2 == c2 && gp == p);
    std::mem::forget(ops); std::mem::forget(out);
}
