"""Proof obligations: which harness decides what, for which property, in which tier, under which bounds and cuts.

Every entry is one solver query batch (one goto binary, one CBMC run).  An obligation is registered for a tier only if it
discharges on the unchanged tree well inside its timeout (>= 3x measured) -- see DESIGN.md §3.
"""

# known-finding exclusion switches referenced by harness code (crate::verif_kf::<KEY>); active iff listed as open in
# /verif/known_findings.json
KF_KEYS = [
]

X1_ERR = ["error::PdfError"]
X1_ALL = ["error::PdfError", "primitive::Primitive", "content::Op", "primitive::Dictionary", "primitive::PdfString",
          "primitive::PdfStream", "std::vec::Vec<primitive::Primitive>", "std::vec::Vec<content::Op>"]
FMT_STUB = "alloc::fmt::format -> String::new() (error messages are not checked, error kinds are)"

OBS = []


def ob(name, props, file, tier="quick", unwind=None, unwindset=None, cuts=None, guards=None, timeout=300, mem_gb=8,
       functions=(), bound="", kind="main", stubs=(), **kw):
    d = dict(name=name, props=list(props), file=file, tier=tier, unwind=unwind, unwindset=list(unwindset or []),
             cuts=list(cuts or []), guards=list(guards or []), timeout=timeout, mem_gb=mem_gb,
             functions=list(functions), bound=bound, kind=kind, stubs=list(stubs))
    d.update(kw)
    OBS.append(d)
    return d


# ---------------------------------------------------------------------------------------------------------------------
# enc.rs kernels: C05 / C16
# ---------------------------------------------------------------------------------------------------------------------
ob("enc_paeth_spec", ["C05"], "enc.rs", functions=["enc::filter_paeth"], bound="all 2^24 (left, up, upper-left) triples")
ob("enc_predictor_tag_total", ["C05"], "enc.rs", cuts=X1_ERR, stubs=[FMT_STUB], functions=["enc::PredictorType::from_u8"],
   bound="all 256 row tags")
for (l, bpp) in [(4, 1), (4, 2), (4, 3), (4, 4), (6, 2), (6, 3), (8, 4)]:
    ob("enc_unfilter_l%d_bpp%d" % (l, bpp), ["C05"], "enc.rs", unwind=l + 2,
       tier="quick" if l <= 4 else "thorough",
       functions=["enc::unfilter", "enc::filter_paeth", "enc::PredictorType::from_u8"],
       bound="all rows of %d bytes x all previous rows x 5 PNG row filters, bytes-per-pixel %d" % (l, bpp))
ob("enc_nibble_spec", ["C05", "C03"], "enc.rs", functions=["enc::decode_nibble"], bound="all 256 bytes")
ob("enc_nibble_inverse", ["C16"], "enc.rs", functions=["enc::encode_nibble", "enc::decode_nibble"], bound="all 16 nibbles")
for l in (1, 2, 3, 4):
    ob("enc_hex_dec_l%d" % l, ["C05"], "enc.rs", unwind=l + 2, cuts=X1_ERR, stubs=[FMT_STUB],
       tier="quick" if l <= 3 else "thorough", timeout=900,
       functions=["enc::decode_hex", "enc::decode_nibble"], bound="all byte strings of length %d" % l)
ob("enc_w_hex_odd_digit", ["C05"], "enc.rs", unwind=4, cuts=X1_ERR, stubs=[FMT_STUB],
   functions=["enc::decode_hex"], bound="the single input '7>'")
for l in (1, 2, 3):
    ob("enc_hex_roundtrip_l%d" % l, ["C16"], "enc.rs", unwind=2 * l + 2, cuts=X1_ERR, stubs=[FMT_STUB],
       tier="quick" if l <= 2 else "thorough", timeout=900,
       functions=["enc::encode_hex", "enc::decode_hex", "enc::encode_nibble", "enc::decode_nibble"],
       bound="all byte strings of length %d" % l)
ob("enc_a85_word_value", ["C05", "C16"], "enc.rs", functions=["enc::word_85", "enc::sym_85"],
   bound="all 2^40 five-byte groups (digits and non-digits)")
for p_ in range(0, 7):
    ob("enc_a85_dec_p%d" % p_, ["C05", "C16"], "enc.rs", unwind=p_ + 4, cuts=X1_ERR, stubs=[FMT_STUB],
       tier="quick" if p_ <= 3 else "thorough", timeout=1800,
       functions=["enc::decode_85", "enc::word_85", "enc::sym_85"],
       bound="all inputs of %d arbitrary bytes followed by the EOD marker '~>'" % p_)
ob("enc_w_a85_ws", ["C05"], "enc.rs", unwind=8, cuts=X1_ERR, stubs=[FMT_STUB],
   functions=["enc::decode_85"], bound="the single input FF '!!~>'")
for l in (3, 4):
    ob("enc_a85_dec_total_l%d" % l, ["C05", "C01"], "enc.rs", unwind=l + 3, cuts=X1_ERR, stubs=[FMT_STUB],
       tier="quick" if l <= 3 else "thorough", timeout=1800, functions=["enc::decode_85", "enc::word_85"],
       bound="all byte strings of length %d (no EOD marker required): no panic" % l)
for n in range(0, 4):
    ob("enc_a85_enc_n%d" % n, ["C16"], "enc.rs", unwind=10, cuts=X1_ERR, timeout=1800,
       tier="quick" if n <= 2 else "thorough",
       functions=["enc::encode_85", "enc::base85_chunk", "enc::divmod", "enc::a85"],
       bound="all inputs of %d bytes; output checked against the reference ASCII85 decoder" % n)
for l in (1, 2, 3, 4):
    ob("enc_rl_l%d" % l, ["C05", "C01"], "enc.rs", unwind=9, unwindset=[(r"^enc::run_length_decode$", 0, l + 1)], cuts=X1_ERR, stubs=[FMT_STUB], timeout=1800,
       tier="quick" if l <= 3 else "thorough", functions=["enc::run_length_decode"],
       bound="all inputs of %d bytes incl. truncated runs, length bytes restricted to 0..=3, 128, 250..=255 (run counts <= 7); "
             "output compared at a symbolic index" % l)
ob("enc_rl_max_repeat", ["C05"], "enc.rs", unwind=131, unwindset=[(r"^enc::run_length_decode$", 0, 3)], cuts=X1_ERR, stubs=[FMT_STUB], timeout=900,
   functions=["enc::run_length_decode"], bound="length byte 129 (128 copies), all data bytes")
ob("enc_rl_max_literal", ["C05"], "enc.rs", unwind=131, unwindset=[(r"^enc::run_length_decode$", 0, 3)], tier="thorough", cuts=X1_ERR, stubs=[FMT_STUB], timeout=900,
   functions=["enc::run_length_decode"], bound="length byte 127 (128 literal bytes), symbolic first/last data byte")
for h, t in [("enc_flate_p12_c1_b8_w2", "quick"), ("enc_flate_p15_c1_b8_w3", "quick"), ("enc_flate_p15_c3_b8_w1", "quick"),
             ("enc_flate_p11_c2_b8_w2", "thorough"), ("enc_flate_p10_c1_b8_w2", "quick"), ("enc_flate_p15_c1_b4_w4", "quick"),
             ("enc_flate_p15_c1_b16_w1", "thorough"), ("enc_flate_p14_c3_b8_w2_r3", "thorough"), ("enc_flate_p1", "quick")]:
    ob(h, ["C05", "C14"], "enc.rs", unwind=12 if "r3" not in h else 24, cuts=X1_ERR, stubs=[FMT_STUB], timeout=1800, mem_gb=12, tier=t,
       functions=["enc::flate_decode", "enc::inflate_bytes_zlib", "enc::inflate_bytes", "enc::unfilter",
                  "enc::PredictorType::from_u8", "libflate::deflate::Decoder (stored block path)"],
       bound="one concrete (predictor, colors, bits, columns) tuple = %s; 2-3 rows; all row tags 0..4 and all pixel bytes; "
             "data is a raw-deflate stored block" % h[10:])

# ---------------------------------------------------------------------------------------------------------------------
# xref.rs / parse_xref.rs: C02 (+ C01/C14 arithmetic)
# ---------------------------------------------------------------------------------------------------------------------
XREF_FN = ["xref::XRefTable::add_entries_from", "xref::XRefSection::entries", "xref::XRef::get_gen_nr", "xref::XRefTable::get",
           "xref::XRefTable::new"]
ob("xref_history_1id_3sections", ["C02"], "xref.rs", unwind=5, cuts=X1_ERR, stubs=[FMT_STUB], functions=XREF_FN,
   bound="1 object number, 3 sections newest->oldest, each present or absent, every entry kind with symbolic fields; "
         "generations non-decreasing over time")
ob("xref_history_2ids", ["C02"], "xref.rs", unwind=5, cuts=X1_ERR, stubs=[FMT_STUB], functions=XREF_FN,
   bound="2 object numbers, newer section of 1-2 entries, older section of 1 entry starting at id 0..3")
ob("xref_merge_step", ["C02"], "xref.rs", unwind=4, cuts=X1_ERR, stubs=[FMT_STUB], functions=XREF_FN + ["xref::XRefTable::set"],
   bound="inductive step from an arbitrary merged entry (incl. Invalid) and one arbitrary older entry")
for sz in (0, 2):
    ob("xref_table_new_get_s%d" % sz, ["C02", "C01"], "xref.rs", unwind=6, cuts=X1_ERR, stubs=[FMT_STUB],
       functions=["xref::XRefTable::new", "xref::XRefTable::get"], bound="/Size %d, every u64 object number" % sz)
ob("xref_byte_len", ["C02", "C14"], "xref.rs", functions=["xref::byte_len"], bound="all u64")
PX = ["parser::parse_xref::parse_xref_section_from_stream", "parser::parse_xref::read_u64_from_stream"]
ob("pxref_read_u64", ["C02", "C01", "C14"], "parse_xref.rs", unwind=11, cuts=X1_ERR, stubs=[FMT_STUB], functions=PX[1:],
   bound="all buffers <= 9 bytes, every usize width")
for h in ("pxref_section_w111_n2", "pxref_section_w121_n2", "pxref_section_w022_n2", "pxref_section_w120_n1"):
    ob(h, ["C02"], "parse_xref.rs", unwind=5, cuts=X1_ERR, stubs=[FMT_STUB], functions=PX, timeout=900,
       bound="one subsection, widths/count = %s, all data bytes, symbolic first id" % h[14:])
ob("pxref_section_sizes_total", ["C01", "C14"], "parse_xref.rs", unwind=7, cuts=X1_ERR, stubs=[FMT_STUB], functions=PX,
   timeout=900, bound="every entry count and width triple representable as 32-bit PDF integers (sum > 0), 4 data bytes, "
                      "strict and tolerant: no panic")
ob("pxref_section_zero_width", ["C14"], "parse_xref.rs", unwind=5, cuts=X1_ERR, stubs=[FMT_STUB], functions=PX,
   timeout=900, unwind_is_violation=True,
   bound="widths [0,0,0], every count < 2^31: the entry loop must stay bounded by the data")


def select(prop, tier, seed=0):
    tiers = ("quick",) if tier == "quick" else ("quick", "thorough")
    return [o for o in OBS if prop in o["props"] and o["tier"] in tiers]


def all_props():
    s = set()
    for o in OBS:
        s.update(o["props"])
    return sorted(s)
