"""Proof obligations: which harness decides what, for which property, in which tier, under which bounds and cuts.

Every entry is one solver query batch (one goto binary, one CBMC run).  An obligation is registered for a tier only if it
discharges on the unchanged tree well inside its timeout (>= 3x measured) -- see DESIGN.md §3.
"""

# known-finding exclusion switches referenced by harness code (crate::verif_kf::<KEY>); active iff listed as open in
# /verif/known_findings.json
KF_KEYS = [
]

X1_ERR = ["error::PdfError"]
X1_ALL = ["error::PdfError", "primitive::Primitive", "content::Op", "primitive::Dictionary", "primitive::PdfString",
          "primitive::PdfStream", "std::vec::Vec<primitive::Primitive>", "std::vec::Vec<content::Op>"]
FMT_STUB = "alloc::fmt::format -> String::new() (error messages are not checked, error kinds are)"
RS_STUB = "std::hash::RandomState::new -> fixed keys (X3)"

OBS = []


def ob(name, props, file, tier="quick", unwind=None, unwindset=None, cuts=None, guards=None, timeout=300, mem_gb=8,
       functions=(), bound="", kind="main", stubs=(), **kw):
    d = dict(name=name, props=list(props), file=file, tier=tier, unwind=unwind, unwindset=list(unwindset or []),
             cuts=list(cuts or []), guards=list(guards or []), timeout=timeout, mem_gb=mem_gb,
             functions=list(functions), bound=bound, kind=kind, stubs=list(stubs))
    d.update(kw)
    OBS.append(d)
    return d


# ---------------------------------------------------------------------------------------------------------------------
# enc.rs kernels: C05 / C16
# ---------------------------------------------------------------------------------------------------------------------
ob("enc_paeth_spec", ["C05"], "enc.rs", functions=["enc::filter_paeth"], bound="all 2^24 (left, up, upper-left) triples")
ob("enc_predictor_tag_total", ["C05"], "enc.rs", cuts=X1_ERR, stubs=[FMT_STUB], functions=["enc::PredictorType::from_u8"],
   bound="all 256 row tags")
for (l, bpp) in [(4, 1), (4, 2), (4, 3), (4, 4), (6, 2), (6, 3), (8, 4)]:
    ob("enc_unfilter_l%d_bpp%d" % (l, bpp), ["C05"], "enc.rs", unwind=l + 2,
       tier="quick" if l <= 4 else "thorough",
       functions=["enc::unfilter", "enc::filter_paeth", "enc::PredictorType::from_u8"],
       bound="all rows of %d bytes x all previous rows x 5 PNG row filters, bytes-per-pixel %d" % (l, bpp))
ob("enc_nibble_spec", ["C05", "C03"], "enc.rs", functions=["enc::decode_nibble"], bound="all 256 bytes")
ob("enc_nibble_inverse", ["C16"], "enc.rs", functions=["enc::encode_nibble", "enc::decode_nibble"], bound="all 16 nibbles")
for l in (1, 2, 3, 4):
    ob("enc_hex_dec_l%d" % l, ["C05"], "enc.rs", unwind=l + 2, cuts=X1_ERR, stubs=[FMT_STUB],
       tier="quick" if l <= 3 else "thorough", timeout=900,
       functions=["enc::decode_hex", "enc::decode_nibble"], bound="all byte strings of length %d" % l)
ob("enc_w_hex_odd_digit", ["C05"], "enc.rs", unwind=4, cuts=X1_ERR, stubs=[FMT_STUB],
   functions=["enc::decode_hex"], bound="the single input '7>'")
for l in (1, 2, 3):
    ob("enc_hex_roundtrip_l%d" % l, ["C16"], "enc.rs", unwind=2 * l + 4, cuts=X1_ERR, stubs=[FMT_STUB],
       tier="quick" if l <= 2 else "thorough", timeout=900,
       functions=["enc::encode_hex", "enc::decode_hex", "enc::encode_nibble", "enc::decode_nibble"],
       bound="all byte strings of length %d" % l)
ob("enc_a85_word_value", ["C05", "C16"], "enc.rs", functions=["enc::word_85", "enc::sym_85"],
   bound="all 2^40 five-byte groups (digits and non-digits)")
for p_ in range(0, 7):
    ob("enc_a85_dec_p%d" % p_, ["C05", "C16"], "enc.rs", unwind=p_ + 4, cuts=X1_ERR, stubs=[FMT_STUB],
       unwindset=[(r"verif_h_enc::same$", 0, max(4, 4 * p_) + 2)],
       tier="quick" if p_ <= 2 else ("thorough" if p_ <= 4 else "infeasible"), timeout=2400, mem_gb=16,
       functions=["enc::decode_85", "enc::word_85", "enc::sym_85"],
       bound="all inputs of %d arbitrary bytes followed by the EOD marker '~>'" % p_)
ob("enc_w_a85_ws", ["C05"], "enc.rs", unwind=8, cuts=X1_ERR, stubs=[FMT_STUB],
   functions=["enc::decode_85"], bound="the single input FF '!!~>'")
for l in (3, 4):
    ob("enc_a85_dec_total_l%d" % l, ["C05", "C01"], "enc.rs", unwind=l + 3, cuts=X1_ERR, stubs=[FMT_STUB],
       tier="quick" if l <= 3 else "thorough", timeout=1800, functions=["enc::decode_85", "enc::word_85"],
       bound="all byte strings of length %d (no EOD marker required): no panic" % l)
for n in range(0, 4):
    ob("enc_a85_enc_n%d" % n, ["C16"], "enc.rs", unwind=10, cuts=X1_ERR, timeout=1800,
       tier="quick" if n <= 2 else "infeasible",
       functions=["enc::encode_85", "enc::base85_chunk", "enc::divmod", "enc::a85"],
       bound="all inputs of %d bytes; output checked against the reference ASCII85 decoder" % n)
for l in (1, 2, 3, 4):
    ob("enc_rl_l%d" % l, ["C05", "C01"], "enc.rs", unwind=9, unwindset=[(r"^enc::run_length_decode$", 0, l + 1)], cuts=X1_ERR, stubs=[FMT_STUB], timeout=1800,
       tier="quick" if l <= 3 else "infeasible", functions=["enc::run_length_decode"],
       bound="all inputs of %d bytes incl. truncated runs, length bytes restricted to 0..=3, 128, 250..=255 (run counts <= 7); "
             "output compared at a symbolic index" % l)
ob("enc_rl_max_repeat", ["C05"], "enc.rs", unwind=131, unwindset=[(r"^enc::run_length_decode$", 0, 3)], cuts=X1_ERR, stubs=[FMT_STUB], timeout=900,
   functions=["enc::run_length_decode"], bound="length byte 129 (128 copies), all data bytes")
ob("enc_rl_max_literal", ["C05"], "enc.rs", unwind=131, unwindset=[(r"^enc::run_length_decode$", 0, 3)], tier="infeasible", cuts=X1_ERR, stubs=[FMT_STUB], timeout=900,
   functions=["enc::run_length_decode"], bound="length byte 127 (128 literal bytes), symbolic first/last data byte")
# quick keeps three geometries (8-bit Up, 3 colours x 4 bits Sub, predictor 1); the vp check stops a quick command at 900 s
for h, t in [("enc_flate_p12_c1_b8_w2", "quick"), ("enc_flate_p15_c1_b8_w3", "thorough"), ("enc_flate_p15_c3_b8_w1", "thorough"),
             ("enc_flate_p11_c2_b8_w2", "thorough"), ("enc_flate_p10_c1_b8_w2", "thorough"), ("enc_flate_p15_c1_b4_w4", "thorough"),
             ("enc_flate_p15_c1_b16_w1", "thorough"), ("enc_flate_p14_c3_b8_w2_r3", "infeasible"), ("enc_flate_p1", "quick"),
             ("enc_flate_p11_c3_b4_w2", "quick"), ("enc_flate_p14_c3_b4_w2", "thorough"), ("enc_flate_p13_c1_b8_w1_r3", "thorough")]:
    ob(h, ["C05", "C14"], "enc.rs", unwind=12 if "r3" not in h else 24, cuts=X1_ERR, stubs=[FMT_STUB], timeout=2400,
       mem_gb=12 if "r3" not in h else 28, tier=t,
       functions=["enc::flate_decode", "enc::inflate_bytes_zlib", "enc::inflate_bytes", "enc::unfilter",
                  "enc::PredictorType::from_u8", "libflate::deflate::Decoder (stored block path)"],
       bound="one concrete (predictor, colors, bits, columns) tuple = %s; 2-3 rows; all row tags 0..4 and all pixel bytes; "
             "data is a raw-deflate stored block" % h[10:])

# ---------------------------------------------------------------------------------------------------------------------
# xref.rs / parse_xref.rs: C02 (+ C01/C14 arithmetic)
# ---------------------------------------------------------------------------------------------------------------------
XREF_FN = ["xref::XRefTable::add_entries_from", "xref::XRefSection::entries", "xref::XRef::get_gen_nr", "xref::XRefTable::get",
           "xref::XRefTable::new"]
ob("xref_history_1id_3sections", ["C02"], "xref.rs", unwind=5, cuts=X1_ERR, stubs=[FMT_STUB], functions=XREF_FN,
   bound="1 object number, 3 sections newest->oldest, each present or absent, every entry kind with symbolic fields; "
         "generations non-decreasing over time")
ob("xref_history_2ids", ["C02"], "xref.rs", unwind=5, cuts=X1_ERR, stubs=[FMT_STUB], functions=XREF_FN,
   bound="2 object numbers, newer section of 1-2 entries, older section of 1 entry starting at id 0..3")
ob("xref_merge_step", ["C02"], "xref.rs", unwind=4, cuts=X1_ERR, stubs=[FMT_STUB], functions=XREF_FN + ["xref::XRefTable::set"],
   bound="inductive step from an arbitrary merged entry (incl. Invalid) and one arbitrary older entry")
for sz in (0, 2):
    ob("xref_table_new_get_s%d" % sz, ["C02", "C01"], "xref.rs", unwind=6, cuts=X1_ERR, stubs=[FMT_STUB],
       functions=["xref::XRefTable::new", "xref::XRefTable::get"], bound="/Size %d, every u64 object number" % sz)
ob("xref_byte_len", ["C02", "C14"], "xref.rs", functions=["xref::byte_len"], bound="all u64")
PX = ["parser::parse_xref::parse_xref_section_from_stream", "parser::parse_xref::read_u64_from_stream"]
ob("pxref_read_u64", ["C02", "C01", "C14"], "parse_xref.rs", unwind=11, cuts=X1_ERR, stubs=[FMT_STUB], functions=PX[1:],
   bound="all buffers <= 9 bytes, every usize width")
for h in ("pxref_section_w111_n2", "pxref_section_w121_n2", "pxref_section_w022_n2", "pxref_section_w120_n1"):
    ob(h, ["C02"], "parse_xref.rs", unwind=5, cuts=X1_ERR, stubs=[FMT_STUB], functions=PX, timeout=900,
       bound="one subsection, widths/count = %s, all data bytes, symbolic first id" % h[14:])
for m_ in ("strict", "tolerant"):
    ob("pxref_section_sizes_%s" % m_, ["C01", "C14"], "parse_xref.rs", unwind=7, cuts=X1_ERR, stubs=[FMT_STUB], functions=PX,
       timeout=2400, mem_gb=16, tier="thorough" if m_ == "strict" else "infeasible", bound="entry counts 0, 1, 5, 2^31-1 x every width triple representable as 32-bit PDF integers (sum > 0), "
                           "4 data bytes, %s mode: no panic" % m_)
ob("pxref_section_zero_width", ["C14"], "parse_xref.rs", unwind=5, cuts=X1_ERR, stubs=[FMT_STUB], functions=PX,
   timeout=900, unwind_is_violation=True,
   bound="widths [0,0,0], every count < 2^31: the entry loop must stay bounded by the data")

# ---------------------------------------------------------------------------------------------------------------------
# lexer: C03 (token level), C01 (cursor safety)
# ---------------------------------------------------------------------------------------------------------------------
LEXFN = ["parser::lexer::Lexer::next", "parser::lexer::Lexer::next_word", "parser::lexer::Lexer::skip_whitespace",
         "parser::lexer::boundary", "parser::lexer::is_whitespace", "parser::lexer::Lexer::is_delimiter",
         "parser::lexer::Lexer::advance_pos", "parser::lexer::Lexer::new_substr"]
MEMCHR = [(r"^core::slice::memchr::memchr_naive$", 0, 11)]
ob("lex_charsets", ["C03"], "lexer.rs", unwind=12, cuts=X1_ERR, functions=["parser::lexer::is_whitespace",
   "parser::lexer::Lexer::is_delimiter", "parser::lexer::Lexer::is_whitespace"], bound="all 256 bytes")
for l in (1, 2, 3, 4):
    ob("lex_next_vs_ref_l%d" % l, ["C03", "C01"], "lexer.rs", unwind=l + 2, unwindset=MEMCHR, unwindset_optional=True,
       cuts=X1_ERR, stubs=[FMT_STUB],
       tier="quick" if l <= 3 else "thorough", timeout=1800, mem_gb=12, functions=LEXFN,
       bound="all buffers of %d bytes; first and second token (range and cursor) against the reference tokenizer" % l)
for l in (2, 3):
    ob("lex_peek_l%d" % l, ["C03", "C01"], "lexer.rs", unwind=l + 2, unwindset=MEMCHR, unwindset_optional=True, cuts=X1_ERR,
       stubs=[FMT_STUB], tier="quick" if l <= 2 else "thorough", timeout=1800, functions=["parser::lexer::Lexer::peek"] + LEXFN,
       bound="all buffers of %d bytes" % l)
for l in (1, 2, 3, 4, 11, 12):
    ob("lex_number_class_l%d" % l, ["C03"], "lexer.rs", unwind=l + 2, cuts=X1_ERR, tier="quick" if l != 4 else "thorough",
       allow_unreachable=(l == 1),
       timeout=900, functions=["parser::lexer::Substr::is_integer", "parser::lexer::Substr::real_number", "parser::lexer::is_int"],
       bound="all regular-character tokens of %d bytes" % l)
LEXOPS = {"next": 3, "peek": 3, "back": 3, "expect": 3, "stream": 8, "setpos": 3, "offset": 3, "fromend": 3, "readn": 3,
          "seekback": 4, "remaining": 3, "seek": 4}
for op, l in LEXOPS.items():
    ob("lex_cursor_%s_l%d" % (op, l), ["C01"], "lexer.rs", unwind=l + 3, unwindset=MEMCHR, unwindset_optional=True, cuts=X1_ERR,
       stubs=[FMT_STUB, "String::from_utf8_lossy -> \"\" (only used for error messages)"], timeout=1200,
       unwind_is_violation=(op == "seek"),
       functions=["parser::lexer::Lexer::%s" % op], bound="all buffers of %d bytes x every start position <= len x every "
       "usize argument: no panic, cursor stays <= len" % l)
ob("lex_next_stream_eol", ["C03"], "lexer.rs", unwind=12, unwindset=MEMCHR, unwindset_optional=True, cuts=X1_ERR, stubs=[FMT_STUB],
   functions=["parser::lexer::Lexer::next_stream"], bound="'stream' followed by every 2-byte sequence")

UTF8_STUB = "core::str::from_utf8 -> ASCII-only validator (inputs are assumed ASCII; symbolic UTF-8 validation exhausts memory)"
for l in (2, 4):
    ob("lex2_int_value_l%d" % l, ["C03"], "lexer2.rs", unwind=l + 3, cuts=X1_ALL, stubs=[FMT_STUB, UTF8_STUB], timeout=1200, mem_gb=12,
       tier="quick", functions=["parser::lexer::Substr::to::<i32>", "parser::lexer::Substr::is_integer"],
       bound="every integer token [+-]?d+ of %d bytes: classified integer and read with its decimal value (leading zeros, sign)" % l)
SLFN = ["parser::lexer::str::StringLexer::next_lexeme", "parser::lexer::str::StringLexer::next_byte",
        "parser::lexer::str::StringLexer::peek_byte", "parser::lexer::str::StringLexer::back"]
for l in (1, 2, 3, 4, 5):
    ob("strlex_lit_l%d" % l, ["C03", "C01"], "strlex.rs", unwind=l + 3, cuts=X1_ERR, stubs=[FMT_STUB],
       unwindset=[(r"StringLexer::<'_>::next_lexeme$", None, l // 2 + 2), (r"StringLexer::<'_>::next_lexeme$", 0, 4)],
       tier="infeasible", timeout=2400, mem_gb=12, functions=SLFN,
       bound="all %d-byte texts after '(' : decoded bytes, end detection and consumed length vs the reference" % l)
ob("strlex_octal3", ["C03"], "strlex.rs", tier="infeasible", unwind=6, cuts=X1_ERR, stubs=[FMT_STUB], timeout=900, functions=SLFN,
   unwindset=[(r"StringLexer::<'_>::next_lexeme$", None, 2), (r"StringLexer::<'_>::next_lexeme$", 0, 4)],
   bound="all 512 three-digit octal escapes followed by a non-octal digit")
for l in (2, 3, 4, 5):
    ob("strlex_lit_step_l%d" % l, ["C03", "C01"], "strlex.rs", unwind=5, cuts=X1_ERR, stubs=[FMT_STUB],
       unwindset=[(r"StringLexer::<'_>::next_lexeme$", None, 1), (r"verif_h_strlex::lit_step_ref::<", 0, l + 2)],
       tier="quick" if l <= 3 else "thorough", timeout=1200, mem_gb=12, functions=SLFN,
       bound="one next_lexeme() call from EVERY lexer state (position <= %d, nesting depth 0..999) on every %d-byte buffer: "
             "produced byte / end-of-string, consumed length and nesting depth vs the reference step (inductive step of the "
             "literal-string decoder)" % (l, l))
ob("strlex_raw_cr_as_written", ["C04"], "strlex.rs", unwind=8, cuts=X1_ALL, stubs=[FMT_STUB], timeout=1200, mem_gb=12,
   unwindset=[(r"StringLexer::<'_>::next_lexeme$", None, 1)], functions=SLFN + ["primitive::PdfString::serialize"],
   bound="writer probed on the one-byte string 0D; reader: one next_lexeme() call at a raw CR from every position of every 3-byte "
         "buffer and nesting depth 0..999: if the writer emits CR raw the reader returns CR and consumes one byte")
ob("strlex_lit_step_cont0_l3", ["C03"], "strlex.rs", unwind=5, cuts=X1_ERR, stubs=[FMT_STUB], tier="quick", timeout=1500, mem_gb=16,
   unwindset=[(r"StringLexer::<'_>::next_lexeme$", None, 2), (r"verif_h_strlex::lit_step_ref::<", 0, 5)], functions=SLFN,
   bound="one next_lexeme() call at position 0 of a 3-byte buffer that starts with a line continuation (backslash + CR / LF / CRLF), "
         "every nesting depth")
ob("strlex_lit_step_cont_l3", ["C03"], "strlex.rs", unwind=5, cuts=X1_ERR, stubs=[FMT_STUB], tier="thorough", timeout=2400, mem_gb=16,
   unwindset=[(r"StringLexer::<'_>::next_lexeme$", None, 2), (r"verif_h_strlex::lit_step_ref::<", 0, 5)], functions=SLFN,
   bound="one next_lexeme() call that starts at a line continuation (backslash + CR / LF / CRLF) in a 3-byte buffer")
ob("strlex_lit_step_cont_l4", ["C03"], "strlex.rs", unwind=5, cuts=X1_ERR, stubs=[FMT_STUB], tier="thorough", timeout=2400, mem_gb=16,
   unwindset=[(r"StringLexer::<'_>::next_lexeme$", None, 2), (r"verif_h_strlex::lit_step_ref::<", 0, 6)], functions=SLFN,
   bound="one next_lexeme() call that starts at a line continuation (backslash + CR / LF / CRLF) in a 4-byte buffer: exactly one "
         "recursive call")
HLFN = ["parser::lexer::str::HexStringLexer::next_hex_byte", "parser::lexer::str::HexStringLexer::next_non_whitespace_char"]
for l in (1, 2, 3, 4):
    ob("strlex_hex_l%d" % l, ["C03", "C01"], "strlex.rs", unwind=l + 3, cuts=X1_ERR, stubs=[FMT_STUB],
       tier="quick" if l <= 2 else "thorough", timeout=2400, mem_gb=12, functions=HLFN,
       bound="all %d-byte texts after '<'" % l)

# ---------------------------------------------------------------------------------------------------------------------
# crypt.rs: C06
# ---------------------------------------------------------------------------------------------------------------------
MD5_STUB = "md5::compute -> recording stub returning a fixed digest (X7: hash core trusted; its INPUT is what is checked)"
RC4_STUB = "crypt::Rc4::encrypt -> recording stub (X7: cipher core trusted; its KEY is what is checked)"
ob("crypt_v2_keymaterial", ["C06"], "crypt.rs", unwind=50, cuts=X1_ERR, stubs=[FMT_STUB, MD5_STUB, RC4_STUB], timeout=900,
   functions=["crypt::Decoder::decrypt", "crypt::Decoder::key", "crypt::Decoder::new"],
   bound="RC4 (V2): every 16-byte file key, key size 5..=16, every object number and generation, 2 data bytes")
ob("crypt_aesv2_keymaterial_short", ["C06", "C14"], "crypt.rs", unwind=50, cuts=X1_ERR, stubs=[FMT_STUB, MD5_STUB], timeout=900,
   functions=["crypt::Decoder::decrypt", "crypt::Decoder::key"],
   bound="AESV2: every key, key size 5..=32, every id/gen, data of 1..=15 bytes (error path); MD5 input incl. 'sAlT'")
ob("crypt_key_len", ["C06"], "crypt.rs", unwind=34, functions=["crypt::Decoder::key", "crypt::Decoder::new"],
   bound="V2/AESV2 with key size 1..=16, AESV3 with key size 32, every key byte")
ob("crypt_aesv3_short", ["C06", "C14"], "crypt.rs", unwind=34, cuts=X1_ERR, stubs=[FMT_STUB], timeout=900,
   functions=["crypt::Decoder::decrypt"], bound="AESV3, data of 1..=15 bytes: error, no panic")
ob("crypt_exemptions", ["C06"], "crypt.rs", unwind=50, cuts=X1_ERR, stubs=[FMT_STUB, MD5_STUB, RC4_STUB], timeout=900,
   functions=["crypt::Decoder::decrypt"],
   bound="every (object, /Encrypt ref, metadata ref, EncryptMetadata flag) combination, data length 0..=2")

CTX_STUB = "md5::Context::{new, consume, compute} -> recording stubs (X7): the byte sequence hashed by Algorithm 2 is what is checked"
for rev in (2, 3):
    ob("crypt_kdf_user_rev%d" % rev, ["C06"], "crypt.rs", unwind=54, cuts=X1_ALL, stubs=[FMT_STUB, RS_STUB, MD5_STUB, RC4_STUB, CTX_STUB],
       timeout=2400, mem_gb=24, tier="quick" if rev == 2 else "thorough",
       functions=["crypt::Decoder::from_password", "crypt::Decoder::from_password::key_derivation_user_password_rc4",
                  "crypt::Decoder::from_password::check_password_rc4"],
       bound="revision %d, every user password of 0..=40 bytes, every /P, key size %s: hashed bytes = pad32(password) || O || P_le || ID, "
             "%s, file key = first digest" % (rev, "5" if rev == 2 else "16", "no extra rounds" if rev == 2 else "50 extra MD5 rounds over key_size bytes"))

ob("crypt_kdf_user_rev3_long_key", ["C06", "C14"], "crypt.rs", unwind=54, cuts=X1_ALL, stubs=[FMT_STUB, RS_STUB, MD5_STUB, RC4_STUB, CTX_STUB],
   timeout=3600, mem_gb=24, tier="quick", functions=["crypt::Decoder::from_password", "crypt::Decoder::from_password::key_derivation_user_password_rc4"],
   bound="revision 3, /Length 256 (key longer than the digest), every 4-byte password: 50 rounds over min(key_size,16) bytes, no panic")
ob("crypt_owner_unwrap_rev3_40bit", ["C06"], "crypt.rs", unwind=54, cuts=X1_ALL, stubs=[FMT_STUB, RS_STUB, MD5_STUB, RC4_STUB, CTX_STUB],
   timeout=3600, mem_gb=24, tier="quick", functions=["crypt::Decoder::from_password", "crypt::Decoder::from_password::key_derivation_owner_password_rc4"],
   bound="revision 3, 40-bit key, every 4-byte owner password: /O is unwrapped with exactly 20 RC4 passes keyed with key XOR pass number")
ob("crypt2_key_length_total", ["C14", "C06"], "crypt2.rs", unwind=54, cuts=X1_ALL, stubs=[FMT_STUB, RS_STUB, MD5_STUB, CTX_STUB,
   "crypt::Rc4::encrypt -> stub asserting Rc4::new's documented precondition (1..=256 key bytes)"], timeout=1800, mem_gb=16,
   functions=["crypt::Decoder::from_password"], bound="V 2, revision 2, /Length 0 and 8 bits, empty password: no panic, "
   "the cipher is never called with an empty key")

# ---------------------------------------------------------------------------------------------------------------------
# object/types.rs: C07 (+ C14 hostile counts / cycles)
# ---------------------------------------------------------------------------------------------------------------------
PGFN = ["object::types::PageTree::page", "object::types::PageTree::page_limited"]
X1_PAGE = X1_ALL + ["object::types::PagesNode", "object::types::Page", "object::types::PageTree", "object::types::Resources",
                    "object::types::PagesRc", "object::RcRef<object::types::PagesNode>"]
for h, t, uw in [("types_page_flat2", "quick", 7), ("types_page_nested", "quick", 9), ("types_page_empty_mid", "quick", 10),
                 ("types_page_bushy", "quick", 15), ("types_page_chain4", "quick", 10), ("types_page_chain13", "quick", 19),
                 ("types_page_empty", "quick", 5), ("types_page_kids_eq_count", "quick", 10)]:
    # NOT REGISTERED (tier "infeasible"): every shape, even the root without kids, ran out of 12 GB / 1600 s -- the typed nodes live
    # in ~700-byte Arc allocations that CBMC does not constant-propagate, so page_limited's match and loop are unwound blindly.
    ob(h, ["C07"], "types.rs", unwind=uw, cuts=X1_PAGE, stubs=[FMT_STUB, RS_STUB], tier="infeasible", timeout=2400, mem_gb=12, functions=PGFN,
       bound="one concrete tree shape (%s) with accurate counts, every page index 0..=count+2" % h[11:])
ob("types_page_descent_counts", ["C07"], "types.rs", tier="infeasible", unwind=10, cuts=X1_PAGE, stubs=[FMT_STUB, RS_STUB], timeout=1200, functions=PGFN,
   bound="root with 3 tree kids, every (c1,c2,c3) in u32^3 with c1+c2+c3 <= u32::MAX, every u32 page index")
ob("types_page_hostile_counts", ["C14"], "types.rs", tier="infeasible", unwind=10, cuts=X1_PAGE, stubs=[FMT_STUB, RS_STUB], timeout=1200, functions=PGFN,
   bound="same shape, ARBITRARY /Count values (incl. overflowing sums): no panic")
ob("types_page_self_cycle", ["C14"], "types.rs", tier="infeasible", unwind=19, cuts=X1_PAGE, stubs=[FMT_STUB, RS_STUB], timeout=1200, functions=PGFN,
   bound="page tree whose only kid is itself, every count and index: error within the depth budget (recursion unwinding assertion)",
   unwind_is_violation=True)
ob("types_inherit_boxes", ["C07"], "types.rs", unwind=7, cuts=X1_PAGE, stubs=[FMT_STUB, RS_STUB], timeout=1200,
   functions=["object::types::inherit", "object::types::Page::media_box", "object::types::Page::crop_box"],
   bound="3 ancestor levels + page, every presence pattern of MediaBox and CropBox (2^8)")
ob("types_inherit_resources", ["C07"], "types.rs", unwind=7, cuts=X1_PAGE, stubs=[FMT_STUB, RS_STUB], timeout=1200,
   functions=["object::types::inherit", "object::types::Page::resources"],
   bound="2 ancestor levels + page, every presence pattern of Resources (2^3)")

# ---------------------------------------------------------------------------------------------------------------------
# content.rs: C08 (operator table through the real dispatch OpBuilder::add); harness names are read from the harness file
# ---------------------------------------------------------------------------------------------------------------------
import os as _os, re as _re
II_STUB = "content::inline_image -> Err (X8: BI..ID..EI is outside the claim; avoids a Kani compiler ICE)"
import json as _json
CONTENT_GROUPS = _json.load(open(_os.path.join(_os.path.dirname(_os.path.abspath(__file__)), "content_groups.json")))
CONTENT_THOROUGH = {"content_grp_path_c", "content_grp_matrix", "content_grp_cmyk", "content_grp_other_color", "content_grp_dash",
                    "content_grp_marked", "content_grp_missing"}
for g, ops_ in CONTENT_GROUPS.items():
    ob(g, ["C08"], "content.rs", unwind=24 if g == "content_grp_ri" else 8, cuts=X1_ALL, stubs=[FMT_STUB, II_STUB],
       timeout=3600 if g in CONTENT_THOROUGH else 1500, mem_gb=24 if g == "content_grp_dash" else 12,
       tier="thorough" if g in CONTENT_THOROUGH else "quick",
       functions=["content::OpBuilder::add"],
       bound="operator keywords %s with well-formed operands; every finite f32 / every i32 numeric operand" % " ".join(ops_))

F32_STUB = "<f32 as Display>::fmt -> writes the bit pattern as token Fxxxxxxxx (number formatting itself is Out)"
# NOT REGISTERED: did not finish in 20 min (fmt::write / io::Write machinery with symbolic output length)
ob("content_ser_move_curve", ["C08"], "content_ser.rs", tier="infeasible", unwind=12, cuts=X1_ALL, stubs=[FMT_STUB, F32_STUB], timeout=1200, mem_gb=16,
   functions=["content::serialize_ops"], bound="[MoveTo, CurveTo] for every finite point: c / v / y choice reads back")

# ---------------------------------------------------------------------------------------------------------------------
# font.rs: C19 (width table)
# ---------------------------------------------------------------------------------------------------------------------
WFN = ["font::Widths::_set", "font::Widths::get", "font::Widths::ensure_cid"]
for f in (0, 1, 2, 3, 5):
    ob("font_widths_step_first%d" % f, ["C19"], "font.rs", unwind=16, timeout=1200, mem_gb=12, functions=WFN,
       tier="quick" if f in (0, 2) else "thorough",
       bound="insertion step from every table with first_char=%d, 0..=3 entries, into every code 0..=8; entries/default/width over "
             "all u16 values; every queried code 0..=14" % f)
ob("font_widths_get", ["C19"], "font.rs", unwind=6, timeout=600, functions=["font::Widths::get"],
   bound="tables of 0..=3 entries, every first_char and every queried code in usize")
ob("font_widths_commute", ["C19"], "font.rs", unwind=16, timeout=1200, mem_gb=12, functions=WFN,
   bound="5 concrete (first_char, len, code a, code b) shapes; both insertion orders give the same table")

ob("font_widths_range_shapes", ["C19"], "font.rs", unwind=16, timeout=1200, mem_gb=12, functions=WFN + ["font::Widths::set"],
   bound="6 concrete (first_char, len, first, last) shapes; one range-form /W group applied as Font::widths does (set per code); "
         "entries/default/width over all u16 values; every queried code 0..=14")
ob("func_sampled_2d_total", ["C14"], "func.rs", unwind=8, cuts=X1_ERR, stubs=[FMT_STUB], timeout=1500, mem_gb=16,
   functions=["object::function::SampledFunction::apply", "object::function::SampledFunctionInput::map", "object::function::SampledFunctionOutput::map"],
   bound="2 inputs, 1 output, 4 sample bytes; every f32 /Domain, /Encode, /Decode, every u32 /Size, every f32 argument pair: no panic")
ob("func_sampled_3d_total", ["C14"], "func.rs", unwind=8, cuts=X1_ERR, stubs=[FMT_STUB], timeout=2400, mem_gb=16, tier="thorough",
   functions=["object::function::SampledFunction::apply", "object::function::SampledFunctionInput::map", "object::function::SampledFunctionOutput::map"],
   bound="3 inputs, 1 output, 4 sample bytes; every f32 /Domain, /Encode, /Decode, every u32 /Size, every f32 argument triple: no panic")
ob("font_widths_group_shapes", ["C19"], "font.rs", unwind=16, timeout=1200, mem_gb=12, functions=WFN + ["font::Widths::set"],
   bound="6 concrete (first_char, len, group start, group length) shapes; one array-form /W group applied as Font::widths does "
         "(ensure_cid, then set per element); entries/default/widths over all u16 values; every queried code 0..=14")

# ---------------------------------------------------------------------------------------------------------------------
# object/function.rs: C14 / C01 (numeric extremes in PostScript calculator and sampled functions)
# ---------------------------------------------------------------------------------------------------------------------
PSFN = ["object::function::PsFunc::exec", "object::function::PsFunc::exec_inner"]
# reach-guard: with a symbolic count the rotation itself must be unreachable (an error is returned before it); its body is replaced
# by assert(false) so that CBMC does not unwind a rotation by a symbolic amount. Reaching it makes the run inconclusive.
ROT_GUARD = [r"^core::slice::<impl \[f32\]>::rotate_(right|left)$"]
for l_ in (0, 1, 2, 3):
    ob("func_ps_ops_l%d" % l_, ["C14"], "func.rs", unwind=8, cuts=X1_ERR, stubs=[FMT_STUB], timeout=900, mem_gb=12, functions=PSFN,
       bound="stack of %d integer-valued f32 operands (every i16); dup exch add sub mul abs pop cvr; integer and real literals with arbitrary values; "
             "wrong output length" % l_)
for l_ in (0, 2, 3):
    ob("func_ps_index_l%d" % l_, ["C14"], "func.rs", unwind=8, cuts=X1_ERR, stubs=[FMT_STUB], timeout=900, mem_gb=12, functions=PSFN,
       bound="stack of %d arbitrary f32 values, 'n index' for every f32 n" % l_)
for l_ in (1, 2, 3):
    ob("func_ps_roll_l%d" % l_, ["C14"], "func.rs", unwind=12, cuts=X1_ERR, stubs=[FMT_STUB], timeout=900, mem_gb=12, functions=PSFN,
       bound="stack of %d arbitrary f32 values, 'n j roll' for every concrete n in 0..=%d and j in -%d..=%d" % (l_, l_, l_ + 1, l_ + 1))
for l_ in (0, 2):
    ob("func_ps_roll_hostile_l%d" % l_, ["C14"], "func.rs", unwind=8, cuts=X1_ERR, stubs=[FMT_STUB], timeout=900, mem_gb=12, functions=PSFN,
       guards=ROT_GUARD,
       bound="stack of %d values, 'n j roll' for every f32 n >= %d and every f32 j: an error" % (l_, l_ + 1))
ob("func_ps_roll_degenerate", ["C14"], "func.rs", unwind=8, cuts=X1_ERR, stubs=[FMT_STUB], timeout=900, mem_gb=12, functions=PSFN,
   guards=ROT_GUARD,
   bound="stack of 2 values, 'n j roll' for every f32 n that is not positive (negative, zero, NaN) and every f32 j: no panic")
ob("func_sampled_1d_total", ["C14"], "func.rs", unwind=8, cuts=X1_ERR, stubs=[FMT_STUB], timeout=900, mem_gb=12,
   functions=["object::function::SampledFunction::apply", "object::function::SampledFunctionInput::map", "object::function::SampledFunctionOutput::map"],
   bound="1 input, 1 output, 4 sample bytes; every f32 /Domain, /Encode, /Decode, every u32 /Size, every f32 argument: no panic")

ob("font4_write_cid", ["C19"], "font4.rs", unwind=8, timeout=900, mem_gb=16, functions=["font::write_cid"],
   bound="every u16 code: the token written is '<' + 4 upper-case big-endian hex digits + '>'")
ob("font4_parse_cid", ["C19"], "font4.rs", unwind=6, cuts=X1_ALL, stubs=[FMT_STUB], timeout=600, functions=["font::parse_cid"],
   bound="every code string of 0..=3 bytes: 1 byte as is, 2 bytes big endian, otherwise an error")
ob("font4_write_unicode_bmp", ["C19"], "font4.rs", tier="infeasible", unwind=8, timeout=900, mem_gb=16, functions=["font::write_unicode"],
   bound="every one-character ASCII text: '<00HH>'")

for h in ("object_opt_i32_dangling", "object_opt_name_dangling", "object_opt_bool_dangling", "object_opt_f32_dangling",
          "object_opt_rect_dangling", "object_opt_rcref_dangling", "object_opt_mayberef_dangling", "object_opt_nested_required"):
    ob(h, ["C18"], "object.rs", unwind=6, cuts=X1_ALL + ["std::sync::Arc<error::PdfError>"], stubs=[FMT_STUB], timeout=900, mem_gb=12,
       functions=["object::<impl Object for Option<T>>::from_primitive", "primitive::Primitive::resolve", "scalar reader of T"],
       bound=("Option<%s> of a reference to a free / never-defined object (every object number and generation), strict and tolerant, "
              "with a stand-in resolver returning the bare FreeObject / NullRef errors of Storage::resolve_ref" % h.split("_")[2])
       if h != "object_opt_nested_required" else
       "Option<T> whose inner reader fails with a missing-object error wrapped in Try / FromPrimitive context (a dangling REQUIRED "
       "entry of T): stays an error in strict mode, None in tolerant mode")
# ---------------------------------------------------------------------------------------------------------------------
# file.rs: C18 (Option reader against the real Storage resolver)
# ---------------------------------------------------------------------------------------------------------------------
DEC_STUB = "enc::decode -> Err (X9: no stream is decoded in these harnesses; avoids a Kani compiler ICE in third-party decoders)"
C18_GUARDS = [r"^parser::parse_object::parse_indirect_object::<", r"^<object::stream::ObjectStream as object::Object>::from_primitive::<",
              r"^parser::parse::<"]
for h, t in [("file_opt_i32_free", "quick"), ("file_opt_i32_undefined", "quick"), ("file_opt_i32_beyond", "quick"),
             ("file_opt_name_beyond", "thorough"), ("file_opt_rcref_beyond", "quick"), ("file_opt_rcref_free", "thorough"),
             ("file_opt_maybe_undefined", "thorough")]:
    ob(h, ["C18"], "file.rs", unwind=6, cuts=X1_ALL, guards=C18_GUARDS, stubs=[FMT_STUB, RS_STUB, DEC_STUB], timeout=900, mem_gb=12,
       tier="infeasible", functions=["object::<impl Object for Option<T>>::from_primitive", "file::Storage::resolve_ref",
                          "file::StorageResolver::resolve_flags", "file::StorageResolver::get", "xref::XRefTable::get"],
       bound="one dangling reference (%s) through the real StorageResolver, strict and tolerant mode" % h[9:])

# ---------------------------------------------------------------------------------------------------------------------
# object/stream.rs: C11 (object-stream member slicing), C14 (its arithmetic)
# ---------------------------------------------------------------------------------------------------------------------
X1_STREAM = X1_ALL + ["object::stream::ObjectStream", "object::stream::Stream<object::stream::ObjStmInfo>",
                      "object::stream::StreamInfo<object::stream::ObjStmInfo>"]
for n in (1, 2, 3):
    ob("stream_objstm_slice_n%d" % n, ["C11"], "stream.rs", unwind=10, cuts=X1_STREAM, stubs=[FMT_STUB, DEC_STUB], timeout=900,
       functions=["object::stream::ObjectStream::get_object_slice", "object::stream::Stream::data"],
       bound="object stream with %d members, every increasing offset table and /First inside 8 data bytes, every index" % n)
ob("stream_objstm_slice_hostile", ["C14", "C01"], "stream.rs", unwind=10, cuts=X1_STREAM, stubs=[FMT_STUB, DEC_STUB], timeout=900,
   functions=["object::stream::ObjectStream::get_object_slice"],
   bound="2 members, ARBITRARY usize offsets and /First, every index: no panic")

# ---------------------------------------------------------------------------------------------------------------------
# primitive.rs: C04 (string serialisation against the reference decoders)
# ---------------------------------------------------------------------------------------------------------------------
for n in (0, 1, 2, 3):
    ob("prim_string_ser_n%d" % n, ["C04"], "primitive.rs", unwind=4 * n + 6, cuts=X1_ALL, stubs=[FMT_STUB], timeout=2400, mem_gb=28,
       tier="quick" if n <= 2 else "thorough", functions=["primitive::PdfString::serialize"],
       bound="every string of %d bytes: the serialised token decodes to the same bytes under the reference literal/hex string "
             "decoder; serialising does not panic" % n)

for h, t in (("prim_name_ser_n1", "quick"), ("prim_name_ser_n2", "quick"), ("prim_name_ser_utf8", "infeasible")):
    ob(h, ["C04"], "primitive.rs", unwind=9, cuts=X1_ALL, stubs=[FMT_STUB], timeout=1800, mem_gb=12, tier=t,
       functions=["primitive::serialize_name"],
       bound="%s: the serialised name token consists of regular characters only and decodes (#xx) to the same bytes; no panic" %
             {"prim_name_ser_n1": "every 1-character ASCII name", "prim_name_ser_n2": "every 2-character ASCII name",
              "prim_name_ser_utf8": "every name made of one 2-byte UTF-8 character"}[h])

# ---------------------------------------------------------------------------------------------------------------------
# backend.rs: C01 (range arithmetic, header search)
# ---------------------------------------------------------------------------------------------------------------------
ob("backend_to_range_total", ["C01"], "backend.rs", unwind=4, cuts=X1_ERR, stubs=[FMT_STUB], timeout=600,
   functions=["backend::IndexRange::to_range"], bound="every (start, end, len) in usize^3, all four range kinds")
ob("backend_read_total", ["C01"], "backend.rs", unwind=6, cuts=X1_ERR, stubs=[FMT_STUB], timeout=600,
   functions=["backend::Backend::read"], bound="4-byte backend, every usize range")
ob("backend_locate_header", ["C01"], "backend.rs", unwind=9, cuts=X1_ERR, stubs=[FMT_STUB], timeout=900,
   functions=["backend::Backend::locate_start_offset"], bound="every 7-byte buffer: first position of %PDF- or error")

# ---------------------------------------------------------------------------------------------------------------------
# parser/mod.rs (experimental: one level of the object parser)
# ---------------------------------------------------------------------------------------------------------------------
X1_FONT = X1_ALL + ["font::Font", "font::FontData", "font::CIDFont", "font::FontDescriptor", "font::Widths"]
for h in ("font2_w_array_ascending", "font2_w_array_descending"):
    ob(h, ["C19"], "font2.rs", tier="infeasible", unwind=8, cuts=X1_FONT, stubs=[FMT_STUB, RS_STUB], timeout=1500, mem_gb=16,
       functions=["font::Font::widths", "font::Widths::set", "font::Widths::_set", "font::Widths::get"],
       bound="/W [2 [a b] 6 7 c] (%s order) with symbolic widths and /DW, every code 0..=10" % h[14:])
for h in ("parser2_int_then_sep", "parser2_int_at_end"):
    ob(h, ["C03", "C11"], "parser2.rs", tier="infeasible", unwind=6, unwindset=[(r"^core::slice::memchr::memchr_naive$", 0, 11)], unwindset_optional=True, cuts=X1_ALL,
       guards=[r"^parser::parse_with_lexer_ctx::<", r"^parser::parse_dictionary_object::<"], stubs=[FMT_STUB, UTF8_STUB], timeout=1500, mem_gb=16,
       functions=["parser::_parse_with_lexer_ctx"], bound=h)
ob("parser2_name3", ["C03"], "parser2.rs", tier="infeasible", unwind=7, unwindset=[(r"^core::slice::memchr::memchr_naive$", 0, 11)], unwindset_optional=True, cuts=X1_ALL, guards=[r"^parser::parse_with_lexer_ctx::<", r"^parser::parse_dictionary_object::<"],
   stubs=[FMT_STUB], timeout=10000, mem_gb=24, functions=["parser::_parse_with_lexer_ctx"], bound="names of 3 ASCII bytes")
ob("types2_page_shape_a", ["C07"], "types2.rs", tier="infeasible", unwind=5, cuts=X1_PAGE, stubs=[FMT_STUB, RS_STUB], timeout=1500, mem_gb=16,
   unwindset=[(r"^object::types::PageTree::page_limited::<", None, 3)], unwindset_optional=True,
   functions=["object::types::PageTree::page", "object::types::PageTree::page_limited"],
   bound="shape root[T[], L, T[L, L]], every page index 0..=4, fresh nodes per request")
PARSER_GUARDS = [r"^parser::parse_with_lexer_ctx::<", r"^parser::parse_dictionary_object::<"]
for l in (1, 2):
    ob("parser_scalar_total_l%d" % l, ["C01"], "parser.rs", tier="infeasible", unwind=l + 2, cuts=X1_ALL, guards=PARSER_GUARDS,
       stubs=[FMT_STUB], timeout=1200, mem_gb=16,
       functions=["parser::_parse_with_lexer_ctx"], bound="all buffers of %d bytes" % l)

# Engine M (MIR -> SMT-LIB -> cvc5 int-blasting): the full ASCII85 group inverse, all 2^32 groups
ob("enc_m_a85_group_inverse", ["C05", "C16"], "enc.rs", engine="m2s", query="a85_group_inverse", replay_harness="enc_m_a85_group_replay",
   timeout=600, functions=["enc::base85_chunk", "enc::word_85", "enc::word_85::s", "enc::divmod", "enc::a85", "enc::sym_85"],
   bound="ALL 2^32 four-byte groups: word_85(base85_chunk(c)) == Some(c), every digit in '!'..='u', no arithmetic overflow "
         "(18 overflow obligations); loop-free, so no unwinding bound")
for t_ in (1, 2):
    ob("enc_a85_enc_tail%d_after_group" % t_, ["C16"], "enc.rs", unwind=12, cuts=X1_ERR, timeout=1800, mem_gb=12,
       tier="quick" if t_ == 1 else "thorough",
       functions=["enc::encode", "enc::encode_85", "enc::base85_chunk"],
       bound="input = one concrete full group 01 02 fe ff followed by %d symbolic tail byte(s): output accepted by the reference "
             "decoder with the input as result (zero padding of the partial group)" % t_)
ob("enc_a85_enc_tail3_after_group", ["C16"], "enc.rs", unwind=12, cuts=X1_ERR, timeout=1800, mem_gb=12,
   functions=["enc::encode", "enc::encode_85", "enc::base85_chunk"],
   bound="input = concrete full group 01 02 fe ff, then 41 42 t with t symbolic (3-byte tail, four digits written): output accepted by "
         "the reference decoder with the input as result")
for h_, b_ in (("enc_a85_enc_zero_then_word", "00 00 00 00 41 42 43 t"), ("enc_a85_enc_word_then_zero", "41 42 43 t 00 00 00 00"),
               ("enc_a85_enc_zero_zero_word_tail", "two zero words, fe ff 01 t, tail byte t")):
    ob(h_, ["C16"], "enc.rs", unwind=22, cuts=X1_ERR, timeout=1800, mem_gb=12,
       functions=["enc::encode", "enc::encode_85", "enc::base85_chunk"],
       bound="input = %s with t symbolic (the all-zero shorthand next to ordinary words): output accepted by the reference decoder "
             "with the input as result" % b_)
FLFN = ["enc::flate_decode", "enc::inflate_bytes_zlib", "enc::inflate_bytes", "enc::unfilter", "enc::PredictorType::from_u8"]
for t_ in (5, 4, 2):
    ob("enc_flate_ragged_t%d" % t_, ["C01", "C05", "C14"], "enc.rs", unwind=12, cuts=X1_ERR, stubs=[FMT_STUB], timeout=1800, mem_gb=12,
       tier="quick" if t_ == 5 else "thorough", functions=FLFN,
       bound="PNG predictor, rows of 3 bytes, %d inflated bytes that do not form whole rows, all byte values: no panic" % t_)
for w_ in ("colors", "bits", "columns"):
    # NOT REGISTERED: symbolic geometry makes the row buffers symbolic-sized: out of memory at 12 GB after 23 min
    ob("enc_flate_hostile_%s" % w_, ["C14", "C01"], "enc.rs", tier="infeasible", unwind=12, cuts=X1_ERR, stubs=[FMT_STUB], timeout=1800, mem_gb=12,
       functions=FLFN, bound="predictor 12, EVERY i32 value of %s with the other two parameters at extreme values, 2 inflated bytes: "
       "no panic" % w_)



# ---------------------------------------------------------------------------------------------------------------------
# numeric conversions of Primitive (C14), and the experiments of the last build hours (all tier "infeasible": documented
# attempts, never selected by a registered check)
# ---------------------------------------------------------------------------------------------------------------------
ob("prim2_integer_ser_i16", ["C04"], "primitive2.rs", unwind=14, cuts=X1_ALL, stubs=[FMT_STUB], timeout=900, mem_gb=16, tier="quick",
   functions=["primitive::Primitive::serialize", "core::fmt::num::<impl Display for i32>::fmt"],
   bound="every integer -32768..=32767: the token written for Integer(i) is an optional '-' and decimal digits with value i")
ob("prim2_integer_ser_windows", ["C04"], "primitive2.rs", unwind=14, cuts=X1_ALL, stubs=[FMT_STUB], timeout=1500, mem_gb=16, tier="thorough",
   functions=["primitive::Primitive::serialize", "core::fmt::num::<impl Display for i32>::fmt"],
   bound="six 2^16-wide windows of the i32 range (both ends, the 6/7, 8/9 and 9/10 digit boundaries, negative 10/9): value of the token = i")
ob("prim2_integer_ser_i24", ["C04"], "primitive2.rs", unwind=14, cuts=X1_ALL, stubs=[FMT_STUB], timeout=1500, mem_gb=16, tier="thorough",
   functions=["primitive::Primitive::serialize", "core::fmt::num::<impl Display for i32>::fmt"],
   bound="every 24-bit integer: value of the token = i")
ob("prim2_keyword_ser", ["C04"], "primitive2.rs", unwind=14, cuts=X1_ALL, stubs=[FMT_STUB], timeout=900, mem_gb=16, tier="quick",
   functions=["primitive::Primitive::serialize"], bound="both booleans and null: exactly the keywords true / false / null")
ob("prim2_reference_ser", ["C04"], "primitive2.rs", unwind=14, cuts=X1_ALL, stubs=[FMT_STUB], timeout=1800, mem_gb=16, tier="thorough",
   functions=["primitive::Primitive::serialize"], bound="object numbers 0..65535, generations 0..255: 'id gen R' with single spaces and decimal values")
ob("prim2_integer_ser", ["C04"], "primitive2.rs", unwind=14, cuts=X1_ALL, stubs=[FMT_STUB], timeout=900, mem_gb=16, tier="infeasible",
   functions=["primitive::Primitive::serialize", "core::fmt::num::<impl Display for i32>::fmt"],
   bound="every i32: the token written for Integer(i) is an optional '-' and decimal digits with value i")
ob("prim2_numeric_conversions", ["C14", "C01"], "primitive2.rs", unwind=4, cuts=X1_ALL, stubs=[FMT_STUB], timeout=900, mem_gb=12,
   functions=["primitive::Primitive::as_integer", "primitive::Primitive::as_u32", "primitive::Primitive::as_usize",
              "primitive::Primitive::as_u8", "primitive::Primitive::as_number"],
   bound="every i32: negative values are errors for the unsigned conversions (never wrapped), in-range values unchanged; every non-NaN f32")
ob("stream2_chain_hex_then_runlength", ["C05"], "stream2.rs", tier="infeasible", unwind=10, cuts=X1_ALL, stubs=[FMT_STUB], timeout=1500, mem_gb=16,
   functions=["object::stream::Stream::data"], bound="filter chain [ASCIIHex, RunLength] on a symbolic payload byte: timeout 25 min "
   "(dct/fax/lzw/flate decoders must be stubbed or the Kani compiler panics)")
ob("xref2_write_then_read", ["C02"], "xref2.rs", tier="infeasible", unwind=10, cuts=X1_ALL, stubs=[FMT_STUB], timeout=1500, mem_gb=16,
   functions=["xref::XRefTable::write_stream"], bound="xref-stream writer inverted by the row reader, 2 symbolic entries: solver out of memory "
   "(symbolic field widths make the slices symbolic-sized)")
ob("content_ser2_move_curve", ["C08"], "content_ser2.rs", tier="infeasible", unwind=16, cuts=X1_ALL, stubs=[FMT_STUB], timeout=1500, mem_gb=20,
   functions=["content::serialize_ops"], bound="serializer with a silent recording stub for number formatting: timeout 25 min")
for l_ in (2, 3, 4):
    ob("font3_utf16_l%d" % l_, ["C01"], "font3.rs", tier="infeasible", unwind=8, cuts=X1_ALL, stubs=[FMT_STUB], timeout=900, mem_gb=12,
       functions=["font::utf16be_to_string"], bound="UTF-16BE decoding of %d arbitrary bytes: timeout 15 min" % l_)
ob("backend2_locate_xref_offset", ["C02"], "backend2.rs", tier="infeasible", unwind=34, cuts=X1_ALL, stubs=[FMT_STUB], timeout=1200, mem_gb=16,
   functions=["backend::Backend::locate_xref_offset"], bound="startxref offset on a concrete skeleton with 2 symbolic digits: timeout 20 min")
for h_ in ("dict_lzwparams_roundtrip", "dict_lzwparams_read_defaults"):
    ob(h_, ["C15"], "dict.rs", tier="infeasible", unwind=8, cuts=X1_ALL, stubs=[FMT_STUB, RS_STUB], timeout=1500, mem_gb=20, functions=[],
       bound="derived reader/writer of the smallest model (LZWFlateParams): timeout 25 min")
ob("dict_insert_get", ["C15"], "dict.rs", tier="infeasible", unwind=6, cuts=X1_ALL, stubs=[FMT_STUB, RS_STUB], timeout=900, mem_gb=16, functions=[],
   bound="Dictionary insert/get with a concrete key: feasible (71 s) -- kept as a calibration point only")

# development-only obligations (experiments under X-properties) live in an optional side file so that editing them cannot
# disturb a registered check that is running
try:
    import importlib.util as _ilu
    _dev = _os.path.join(_os.path.dirname(_os.path.abspath(__file__)), "obligations_dev.py")
    if _os.path.exists(_dev):
        _spec = _ilu.spec_from_file_location("obligations_dev", _dev)
        _mod = _ilu.module_from_spec(_spec)
        _mod.ob = ob
        _mod.__dict__.update({k: v for k, v in globals().items() if k.isupper()})
        _spec.loader.exec_module(_mod)
except Exception as _e:  # noqa
    print("obligations_dev.py ignored: %r" % (_e,))


def select(prop, tier, seed=0):
    tiers = ("quick",) if tier == "quick" else ("quick", "thorough")
    return [o for o in OBS if prop in o["props"] and o["tier"] in tiers]


def all_props():
    s = set()
    for o in OBS:
        s.update(o["props"])
    return sorted(s)
