//@ target: pdf/src/object/function.rs
// C14 / C01 (numeric extremes in function objects): the PostScript calculator `PsFunc::exec` and the sampled-function lookup run on
// numbers taken from the document (operands of `roll` / `index`, /Domain, /Encode, /Size); whatever they are, evaluating the
// function returns a value or an error.  Stack *shapes* are concrete, every number is symbolic.
use super::*;

fn nofmt(_a: std::fmt::Arguments<'_>) -> String { String::new() }
fn same(a: f32, b: f32) -> bool { a.to_bits() == b.to_bits() || (a.is_nan() && b.is_nan()) }

/// run `ops` on `input`; Some(final stack) iff exec succeeded with a final stack of exactly `out_len` values
fn run(ops: &[PsOp], input: &[f32], out_len: usize) -> Option<[f32; 6]> {
    let f = PsFunc { ops: ops.to_vec() };
    let mut out = [0f32; 6];
    let r = f.exec(input, &mut out[..out_len]);
    std::mem::forget(f);
    match r { Ok(()) => Some(out), Err(e) => { std::mem::forget(e); None } }
}
fn expect(got: Option<[f32; 6]>, want: &[f32]) {
    match got {
        Some(o) => { let mut i = 0; while i < want.len() { assert!(same(o[i], want[i])); i += 1; } }
        None => assert!(false),
    }
}

/// every operator other than roll/index on a stack of `l` arbitrary numbers: the PostScript result, or an error on underflow
fn arith(l: usize) {
    // operands are all 16-bit integers as floats: sums, differences and products are exact (CBMC's NaN/overflow checks on float
    // arithmetic would otherwise flag `a + b` in the code under test as well as in this oracle); literals are arbitrary floats
    let s: [f32; 3] = [kani::any::<i16>() as f32, kani::any::<i16>() as f32, kani::any::<i16>() as f32];
    let st = &s[..l];
    let top = if l >= 1 { s[l - 1] } else { 0.0 };
    let sec = if l >= 2 { s[l - 2] } else { 0.0 };
    let mut w = [0f32; 6];
    let mut i = 0; while i < l { w[i] = s[i]; i += 1; }
    // unary
    if l >= 1 {
        let mut e = w; e[l] = top; expect(run(&[PsOp::Dup], st, l + 1), &e[..l + 1]);
        let mut e = w; e[l - 1] = top.abs(); expect(run(&[PsOp::Abs], st, l), &e[..l]);
        expect(run(&[PsOp::Pop], st, l - 1), &w[..l - 1]);
    } else {
        assert!(run(&[PsOp::Dup], st, 0).is_none() && run(&[PsOp::Dup], st, 1).is_none());
        assert!(run(&[PsOp::Abs], st, 0).is_none());
        assert!(run(&[PsOp::Pop], st, 0).is_none());
    }
    expect(run(&[PsOp::Cvr], st, l), &w[..l]);
    // binary
    if l >= 2 {
        let mut e = w; e[l - 2] = top; e[l - 1] = sec; expect(run(&[PsOp::Exch], st, l), &e[..l]);
        let mut e = w; e[l - 2] = sec + top; expect(run(&[PsOp::Add], st, l - 1), &e[..l - 1]);
        let mut e = w; e[l - 2] = sec - top; expect(run(&[PsOp::Sub], st, l - 1), &e[..l - 1]);
        let mut e = w; e[l - 2] = sec * top; expect(run(&[PsOp::Mul], st, l - 1), &e[..l - 1]);
    } else {
        let n: usize = kani::any(); kani::assume(n <= 2);
        assert!(run(&[PsOp::Exch], st, n).is_none());
        assert!(run(&[PsOp::Add], st, n).is_none());
        assert!(run(&[PsOp::Sub], st, n).is_none());
        assert!(run(&[PsOp::Mul], st, n).is_none());
    }
    // literals
    let i: i32 = kani::any();
    let v: f32 = kani::any();
    let mut e = w; e[l] = i as f32; e[l + 1] = v; expect(run(&[PsOp::Int(i), PsOp::Value(v)], st, l + 2), &e[..l + 2]);
    // a wrong number of results is an error, not a panic
    let n: usize = kani::any(); kani::assume(n <= 6 && n != l);
    assert!(run(&[PsOp::Cvr], st, n).is_none());
}
#[kani::proof]
#[kani::stub(std::fmt::format, nofmt)]
fn func_ps_ops_l0() { arith(0) }
#[kani::proof]
#[kani::stub(std::fmt::format, nofmt)]
fn func_ps_ops_l1() { arith(1) }
#[kani::proof]
#[kani::stub(std::fmt::format, nofmt)]
fn func_ps_ops_l2() { arith(2) }
#[kani::proof]
#[kani::stub(std::fmt::format, nofmt)]
fn func_ps_ops_l3() { arith(3) }

/// `n index` on a stack of `l` numbers, n any float: integers 0 <= n < l copy the n-th element from the top, integers >= l are an
/// error, anything else (negative, fractional, NaN) is "don't care" but must not panic
fn index(l: usize) {
    let s: [f32; 3] = [kani::any(), kani::any(), kani::any()];
    let n: f32 = kani::any();
    let got = run(&[PsOp::Value(n), PsOp::Index], &s[..l], l + 1);
    let is_int = n >= 0.0 && n <= 16_000_000.0 && (n as u32) as f32 == n;
    if is_int {
        let k = n as usize;
        if k < l {
            let mut e = [0f32; 6]; let mut i = 0; while i < l { e[i] = s[i]; i += 1; }
            e[l] = s[l - 1 - k];
            expect(got, &e[..l + 1]);
        } else {
            assert!(got.is_none());
        }
    } else if n >= l as f32 {
        assert!(got.is_none());
    }
}
#[kani::proof]
#[kani::stub(std::fmt::format, nofmt)]
fn func_ps_index_l0() { index(0) }
#[kani::proof]
#[kani::stub(std::fmt::format, nofmt)]
fn func_ps_index_l2() { index(2) }
#[kani::proof]
#[kani::stub(std::fmt::format, nofmt)]
fn func_ps_index_l3() { index(3) }

/// `n j roll` for concrete small n, j on a stack of `l` arbitrary numbers: the top n elements are rotated by j (positive j moves
/// the top element down: a b c 3 1 roll -> c a b), j is taken modulo n, n = 0 is a no-op
fn roll_shape(l: usize, n: usize, j: i32) {
    let s: [f32; 3] = [kani::any(), kani::any(), kani::any()];
    let got = run(&[PsOp::Int(n as i32), PsOp::Int(j), PsOp::Roll], &s[..l], l);
    let mut e = [0f32; 6]; let mut i = 0; while i < l { e[i] = s[i]; i += 1; }
    if n > 0 {
        let base = l - n;
        let mut i = 0;
        while i < n {
            let to = (i as i32 + j).rem_euclid(n as i32) as usize;
            e[base + to] = s[base + i];
            i += 1;
        }
    }
    expect(got, &e[..l]);
}
fn roll_all(l: usize) {
    let mut n = 0;
    while n <= l {
        let mut j = -(l as i32) - 1;
        while j <= l as i32 + 1 { roll_shape(l, n, j); j += 1; }
        n += 1;
    }
}
#[kani::proof]
#[kani::stub(std::fmt::format, nofmt)]
fn func_ps_roll_l1() { roll_all(1) }
#[kani::proof]
#[kani::stub(std::fmt::format, nofmt)]
fn func_ps_roll_l2() { roll_all(2) }
#[kani::proof]
#[kani::stub(std::fmt::format, nofmt)]
fn func_ps_roll_l3() { roll_all(3) }

/// `n j roll` with a count that does not fit the stack (n > l as an integer or any larger float), any j: an error
fn roll_hostile(l: usize) {
    let s: [f32; 3] = [kani::any(), kani::any(), kani::any()];
    let n: f32 = kani::any();
    let j: f32 = kani::any();
    kani::assume(n >= (l + 1) as f32);
    let m: usize = kani::any(); kani::assume(m <= 6);
    assert!(run(&[PsOp::Value(n), PsOp::Value(j), PsOp::Roll], &s[..l], m).is_none());
}
#[kani::proof]
#[kani::stub(std::fmt::format, nofmt)]
fn func_ps_roll_hostile_l0() { roll_hostile(0) }
#[kani::proof]
#[kani::stub(std::fmt::format, nofmt)]
fn func_ps_roll_hostile_l2() { roll_hostile(2) }

/// `n j roll` with a negative / NaN count or an extreme j on a valid count: any outcome but a panic
#[kani::proof]
#[kani::stub(std::fmt::format, nofmt)]
fn func_ps_roll_degenerate() {
    let s: [f32; 2] = [kani::any(), kani::any()];
    let n: f32 = kani::any();
    let j: f32 = kani::any();
    kani::assume(!(n > 0.0));           // negative, zero or NaN count
    let m: usize = kani::any(); kani::assume(m <= 6);
    let r = run(&[PsOp::Value(n), PsOp::Value(j), PsOp::Roll], &s[..], m);
    assert!(r.is_none() || m == 2);
}

/// sampled function, one input, one output, 4 sample bytes: every /Domain, /Encode, /Size, /Decode and every argument gives a
/// value or an error
#[kani::proof]
#[kani::stub(std::fmt::format, nofmt)]
fn func_sampled_1d_total() {
    let d: [u8; 4] = kani::any();
    let f = SampledFunction {
        input: vec![SampledFunctionInput { domain: (kani::any(), kani::any()), encode_offset: kani::any(), encode_scale: kani::any(), size: kani::any::<u32>() as usize }],
        output: vec![SampledFunctionOutput { offset: kani::any(), scale: kani::any() }],
        data: d.to_vec().into(),
        order: Interpolation::Linear,
        range: vec![kani::any(), kani::any()],
    };
    let x: [f32; 1] = [kani::any()];
    let mut out = [0f32; 1];
    let r = f.apply(&x, &mut out);
    let ok = r.is_ok();
    std::mem::forget(r); std::mem::forget(f);
    assert!(ok || !ok);
}

/// sampled function, two inputs, one output, 4 sample bytes: every /Domain, /Encode, /Size, /Decode and every argument pair gives
/// a value or an error (index arithmetic i0 + size0 * i1, the +1 neighbours, the range end)
#[kani::proof]
#[kani::stub(std::fmt::format, nofmt)]
fn func_sampled_2d_total() {
    let d: [u8; 4] = kani::any();
    let inp = || SampledFunctionInput { domain: (kani::any(), kani::any()), encode_offset: kani::any(), encode_scale: kani::any(), size: kani::any::<u32>() as usize };
    let f = SampledFunction {
        input: vec![inp(), inp()],
        output: vec![SampledFunctionOutput { offset: kani::any(), scale: kani::any() }],
        data: d.to_vec().into(),
        order: Interpolation::Linear,
        range: vec![kani::any(), kani::any()],
    };
    let x: [f32; 2] = [kani::any(), kani::any()];
    let mut out = [0f32; 1];
    let r = f.apply(&x, &mut out);
    let ok = r.is_ok();
    std::mem::forget(r); std::mem::forget(f);
    assert!(ok || !ok);
}

/// sampled function, three inputs, one output, 4 sample bytes (index arithmetic i0 + s0 * (i1 + s1 * i2), eight neighbours)
#[kani::proof]
#[kani::stub(std::fmt::format, nofmt)]
fn func_sampled_3d_total() {
    let d: [u8; 4] = kani::any();
    let inp = || SampledFunctionInput { domain: (kani::any(), kani::any()), encode_offset: kani::any(), encode_scale: kani::any(), size: kani::any::<u32>() as usize };
    let f = SampledFunction {
        input: vec![inp(), inp(), inp()],
        output: vec![SampledFunctionOutput { offset: kani::any(), scale: kani::any() }],
        data: d.to_vec().into(),
        order: Interpolation::Linear,
        range: vec![kani::any(), kani::any()],
    };
    let x: [f32; 3] = [kani::any(), kani::any(), kani::any()];
    let mut out = [0f32; 1];
    let r = f.apply(&x, &mut out);
    let ok = r.is_ok();
    std::mem::forget(r); std::mem::forget(f);
    assert!(ok || !ok);
}
