//@ target: pdf/src/font.rs
// C19 (ToUnicode leaf kernels): the code and text tokens the character-map writer emits, and the code reader.
// The map-level writer/reader (HashMap, group_by, the object parser) is outside the solver's reach; what is decided here is
// that every code token written is "<HHHH>" (4 upper-case hex digits, big endian) and that every 1- or 2-byte code string
// reads as its big-endian value -- so a code token read back denotes the code written.
use super::*;

fn nofmt4(_a: std::fmt::Arguments<'_>) -> String { String::new() }
fn hexd(n: u16) -> u8 { let n = (n & 15) as u8; if n < 10 { b'0' + n } else { b'A' + (n - 10) } }

/// write_cid(c) == "<HHHH>" for every u16
#[kani::proof]
fn font4_write_cid() {
    let cid: u16 = kani::any();
    let mut s = String::new();
    write_cid(&mut s, cid);
    let b = s.as_bytes();
    assert!(b.len() == 6);
    assert!(b[0] == b'<' && b[5] == b'>');
    assert!(b[1] == hexd(cid >> 12) && b[2] == hexd(cid >> 8) && b[3] == hexd(cid >> 4) && b[4] == hexd(cid));
    std::mem::forget(s);
}

/// parse_cid: 2 bytes big endian, 1 byte as is, other lengths are errors (never a panic)
#[kani::proof]
#[kani::stub(std::fmt::format, nofmt4)]
fn font4_parse_cid() {
    let d: [u8; 3] = kani::any();
    let n: usize = kani::any();
    kani::assume(n <= 3);
    let s = PdfString::new(d[..n].into());
    let r = parse_cid(&s);
    match r {
        Ok(v) => { assert!((n == 1 && v == d[0] as u16) || (n == 2 && v == ((d[0] as u16) << 8 | d[1] as u16))); }
        Err(e) => { assert!(n == 0 || n == 3); std::mem::forget(e); }
    }
    std::mem::forget(s);
}

/// write_unicode of one BMP character: "<HHHH>" of its code unit
#[kani::proof]
fn font4_write_unicode_bmp() {
    let u: u16 = kani::any();
    kani::assume(u < 0x80 && u > 0); // one ASCII character (longer UTF-8 forms: see bound)
    let bytes = [u as u8];
    let st = unsafe { std::str::from_utf8_unchecked(&bytes) };
    let mut s = String::new();
    write_unicode(&mut s, st);
    let b = s.as_bytes();
    assert!(b.len() == 6);
    assert!(b[0] == b'<' && b[5] == b'>');
    assert!(b[1] == b'0' && b[2] == b'0' && b[3] == hexd(u >> 4) && b[4] == hexd(u));
    std::mem::forget(s);
}
