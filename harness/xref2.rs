//@ target: pdf/src/parser/parse_xref.rs
// C02 / C10 lemma: the xref-stream writer is inverted by the xref-stream row reader: for a table of two arbitrary entries,
// write_stream(2) produces /W and data from which parse_xref_section_from_stream reads the same two entries back.
use super::*;
use crate::object::StreamData;

fn nofmt(_a: std::fmt::Arguments<'_>) -> String { String::new() }
fn any_xref() -> XRef {
    match kani::any::<u8>() % 3 {
        0 => XRef::Free { next_obj_nr: kani::any(), gen_nr: kani::any() },
        1 => XRef::Raw { pos: kani::any(), gen_nr: kani::any() },
        _ => XRef::Stream { stream_id: kani::any(), index: kani::any() },
    }
}
fn same(a: &XRef, b: &XRef) -> bool {
    match (a, b) {
        (XRef::Free { next_obj_nr: a1, gen_nr: a2 }, XRef::Free { next_obj_nr: b1, gen_nr: b2 }) => a1 == b1 && a2 == b2,
        (XRef::Raw { pos: a1, gen_nr: a2 }, XRef::Raw { pos: b1, gen_nr: b2 }) => a1 == b1 && a2 == b2,
        (XRef::Stream { stream_id: a1, index: a2 }, XRef::Stream { stream_id: b1, index: b2 }) => a1 == b1 && a2 == b2,
        _ => false,
    }
}
#[kani::proof]
#[kani::stub(std::fmt::format, nofmt)]
fn xref2_write_then_read() {
    let e0 = any_xref(); let e1 = any_xref();
    let mut t = crate::xref::XRefTable::new(0);      // one entry: the free sentinel
    t.set(0, e0); t.push(e1);
    let s = match t.write_stream(2) { Ok(s) => s, Err(e) => { std::mem::forget(e); assert!(false); return; } };
    assert!(s.info.size == 2 && s.info.w.len() == 3 && s.info.w[0] == 1);
    let w = [s.info.w[0], s.info.w[1], s.info.w[2]];
    assert!(w[1] >= 1 && w[1] <= 8 && w[2] >= 1 && w[2] <= 8);
    let bytes: &[u8] = match &s.inner_data { StreamData::Generated(d) => &d[..], _ => { assert!(false); return; } };
    assert!(bytes.len() == 2 * (1 + w[1] + w[2]));
    let mut data: &[u8] = bytes;
    let r = parse_xref_section_from_stream(0, 2, &w, &mut data, &NoResolve);
    let ok = match &r { Ok(sec) => sec.entries.len() == 2 && same(&sec.entries[0], &e0) && same(&sec.entries[1], &e1), Err(_) => false };
    std::mem::forget(r); std::mem::forget(s); std::mem::forget(t);
    assert!(ok);
}
