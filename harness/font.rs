//@ target: pdf/src/font.rs
// C19: width table. One insertion step from an arbitrary table state: afterwards get(cid) is the new width and every other
// code is unchanged -- so the order of the groups of a /W array cannot matter. Shapes (first_char, len, cid) are concrete
// (symbolic-count Vec::splice/extend blows up), values / default / width / queried code are symbolic.
use super::*;

fn nofmt(_a: std::fmt::Arguments<'_>) -> String { String::new() }
fn fixed_rs() -> std::hash::RandomState { unsafe { std::mem::transmute::<[u64; 2], std::hash::RandomState>([1, 2]) } }

fn anyw() -> f32 { kani::any::<u16>() as f32 }

fn step(first: usize, len: usize, cid: usize) {
    let mut v = Vec::with_capacity(len);
    let mut i = 0;
    while i < len { v.push(anyw()); i += 1; }
    let mut w = Widths { values: v, default: anyw(), first_char: first };
    let q: usize = kani::any();
    kani::assume(q <= 14);
    let before = w.get(q);
    let width = anyw();
    w._set(cid, width);
    let after = w.get(q);
    if q == cid { assert!(after == width); } else { assert!(after == before); }
    std::mem::forget(w);
}
fn steps_for_first(first: usize) {
    let mut len = 0;
    while len <= 3 {
        let mut cid = 0;
        while cid <= 8 { step(first, len, cid); cid += 1; }
        len += 1;
    }
}
#[kani::proof]
fn font_widths_step_first0() { steps_for_first(0) }
#[kani::proof]
fn font_widths_step_first1() { steps_for_first(1) }
#[kani::proof]
fn font_widths_step_first2() { steps_for_first(2) }
#[kani::proof]
fn font_widths_step_first3() { steps_for_first(3) }
#[kani::proof]
fn font_widths_step_first5() { steps_for_first(5) }

/// get() is total and is the simple-font rule: entry at code - first_char inside the table, default outside
#[kani::proof]
fn font_widths_get() {
    let vals = [anyw(), anyw(), anyw()];
    let n: usize = kani::any();
    kani::assume(n <= 3);
    let first: usize = kani::any();
    let default = anyw();
    let w = Widths { values: vals[..n].to_vec(), default, first_char: first };
    let code: usize = kani::any();
    let got = w.get(code);
    if code >= first && code - first < n { assert!(got == vals[code - first]); } else { assert!(got == default); }
    std::mem::forget(w);
}

/// two insertions in either order give the same table (as seen through get) when the codes differ
fn two_orders(first: usize, len: usize, a: usize, b: usize) {
    let vals = [anyw(), anyw(), anyw()];
    let default = anyw();
    let wa = anyw(); let wb = anyw();
    let mut w1 = Widths { values: vals[..len].to_vec(), default, first_char: first };
    let mut w2 = Widths { values: vals[..len].to_vec(), default, first_char: first };
    w1._set(a, wa); w1._set(b, wb);
    w2._set(b, wb); w2._set(a, wa);
    let q: usize = kani::any();
    kani::assume(q <= 14);
    assert!(w1.get(q) == w2.get(q));
    std::mem::forget(w1); std::mem::forget(w2);
}
#[kani::proof]
fn font_widths_commute() {
    two_orders(2, 2, 0, 7);
    two_orders(2, 2, 7, 3);
    two_orders(0, 0, 4, 1);
    two_orders(3, 1, 1, 0);
    two_orders(1, 3, 2, 9);
}

/// one `first [w0 w1 ..]` group the way Font::widths applies it -- ensure_cid(first + n - 1), then set(first + i, w_i) for each
/// element -- on a concrete table shape: afterwards the group's codes have the group's widths and every other code is unchanged
/// (in particular codes in a gap between the old table and the group still read the default width)
fn group(first: usize, len: usize, c1: usize, glen: usize) {
    let vals = [anyw(), anyw(), anyw()];
    let mut w = Widths { values: vals[..len].to_vec(), default: anyw(), first_char: first };
    let gw = [anyw(), anyw(), anyw()];
    let q: usize = kani::any();
    kani::assume(q <= 14);
    let before = w.get(q);
    w.ensure_cid(c1 + glen - 1);
    let mut i = 0;
    while i < glen { w.set(c1 + i, gw[i]); i += 1; }
    let after = w.get(q);
    if q >= c1 && q < c1 + glen { assert!(after == gw[q - c1]); } else { assert!(after == before); }
    std::mem::forget(w);
}
#[kani::proof]
fn font_widths_group_shapes() {
    group(2, 2, 6, 2);      // gap between table and group
    group(0, 0, 3, 2);      // empty table
    group(4, 2, 0, 2);      // group before the table, with a gap
    group(2, 2, 4, 2);      // adjacent
    group(2, 3, 3, 2);      // overlapping
    group(1, 1, 5, 3);      // longer group after a gap
}

/// one `first last w` group the way Font::widths applies it -- set(c, w) for every c in first..=last -- on a concrete table shape
fn range_group(first: usize, len: usize, c1: usize, c2: usize) {
    let vals = [anyw(), anyw(), anyw()];
    let mut w = Widths { values: vals[..len].to_vec(), default: anyw(), first_char: first };
    let gw = anyw();
    let q: usize = kani::any();
    kani::assume(q <= 14);
    let before = w.get(q);
    let mut c = c1;
    while c <= c2 { w.set(c, gw); c += 1; }
    let after = w.get(q);
    if q >= c1 && q <= c2 { assert!(after == gw); } else { assert!(after == before); }
    std::mem::forget(w);
}
#[kani::proof]
fn font_widths_range_shapes() {
    range_group(2, 2, 6, 8);      // gap between table and range
    range_group(0, 0, 3, 5);      // empty table
    range_group(5, 2, 0, 2);      // range before the table, with a gap
    range_group(2, 3, 3, 6);      // overlapping and extending
    range_group(3, 1, 3, 3);      // single code, overwrite
    range_group(4, 2, 7, 6);      // empty range (last < first): nothing changes
}
