//@ target: pdf/src/enc.rs
// Harnesses for the stream-filter kernels (C05, C16, parts of C01/C14).
// Injected as a child module of pdf/src/enc.rs in a scratch copy, so private items are visible.
use super::*;

fn nofmt(_a: std::fmt::Arguments<'_>) -> String { String::new() }

/// Result<Vec<u8>> -> Option<Vec<u8>> without ever dropping a PdfError symbolically
fn okv(r: Result<Vec<u8>>) -> Option<Vec<u8>> {
    match r { Ok(v) => Some(v), Err(e) => { std::mem::forget(e); None } }
}
fn same(a: &[u8], b: &[u8]) -> bool {
    if a.len() != b.len() { return false; }
    let mut i = 0;
    while i < a.len() { if a[i] != b[i] { return false; } i += 1; }
    true
}

// ------------------------------------------------------------------------------------------------
// PNG predictor kernels
// ------------------------------------------------------------------------------------------------

/// Paeth predictor exactly as in the PNG specification (ISO/IEC 15948 §9.4), wide integers
fn paeth_ref(a: u8, b: u8, c: u8) -> u8 {
    let p = a as i32 + b as i32 - c as i32;
    let pa = (p - a as i32).abs();
    let pb = (p - b as i32).abs();
    let pc = (p - c as i32).abs();
    if pa <= pb && pa <= pc { a } else if pb <= pc { b } else { c }
}
#[kani::proof]
fn enc_paeth_spec() {
    let (a, b, c): (u8, u8, u8) = (kani::any(), kani::any(), kani::any());
    assert!(filter_paeth(a, b, c) == paeth_ref(a, b, c));
}

#[kani::proof]
#[kani::stub(std::fmt::format, nofmt)]
fn enc_predictor_tag_total() {
    let n: u8 = kani::any();
    let r = PredictorType::from_u8(n);
    let ok = match &r {
        Ok(t) => n <= 4 && (*t as u8) == n,
        Err(_) => n > 4,
    };
    std::mem::forget(r);
    assert!(ok);
}

/// PNG reconstruction (ISO/IEC 15948 §9.2) of one row, written independently of enc.rs
fn recon_ref(ty: u8, bpp: usize, prev: &[u8], inp: &[u8], out: &mut [u8]) {
    let mut i = 0;
    while i < inp.len() {
        let a = if i >= bpp { out[i - bpp] } else { 0 };
        let b = prev[i];
        let c = if i >= bpp { prev[i - bpp] } else { 0 };
        let pred = match ty {
            0 => 0u8,
            1 => a,
            2 => b,
            3 => ((a as u16 + b as u16) / 2) as u8,
            _ => paeth_ref(a, b, c),
        };
        out[i] = inp[i].wrapping_add(pred);
        i += 1;
    }
}
fn unfilter_vs_ref<const L: usize>(bpp: usize) {
    let prev: [u8; L] = kani::any();
    let inp: [u8; L] = kani::any();
    let t: u8 = kani::any();
    kani::assume(t <= 4);
    let ty = PredictorType::from_u8(t).unwrap();
    let mut out = [0u8; L];
    let mut want = [0u8; L];
    unfilter(ty, bpp, &prev, &inp, &mut out);
    recon_ref(t, bpp, &prev, &inp, &mut want);
    assert!(same(&out, &want));
}
#[kani::proof]
fn enc_unfilter_l4_bpp1() { unfilter_vs_ref::<4>(1) }
#[kani::proof]
fn enc_unfilter_l4_bpp2() { unfilter_vs_ref::<4>(2) }
#[kani::proof]
fn enc_unfilter_l4_bpp3() { unfilter_vs_ref::<4>(3) }
#[kani::proof]
fn enc_unfilter_l4_bpp4() { unfilter_vs_ref::<4>(4) }
#[kani::proof]
fn enc_unfilter_l6_bpp2() { unfilter_vs_ref::<6>(2) }
#[kani::proof]
fn enc_unfilter_l6_bpp3() { unfilter_vs_ref::<6>(3) }
#[kani::proof]
fn enc_unfilter_l8_bpp4() { unfilter_vs_ref::<8>(4) }

// ------------------------------------------------------------------------------------------------
// ASCIIHex
// ------------------------------------------------------------------------------------------------

fn hexdigit_ref(c: u8) -> Option<u8> {
    match c {
        b'0'..=b'9' => Some(c - b'0'),
        b'a'..=b'f' => Some(c - b'a' + 10),
        b'A'..=b'F' => Some(c - b'A' + 10),
        _ => None,
    }
}
#[kani::proof]
fn enc_nibble_spec() {
    let c: u8 = kani::any();
    assert!(decode_nibble(c) == hexdigit_ref(c));
}
#[kani::proof]
fn enc_nibble_inverse() {
    let n: u8 = kani::any();
    kani::assume(n < 16);
    let c = encode_nibble(n);
    assert!(hexdigit_ref(c) == Some(n));
    assert!(decode_nibble(c) == Some(n));
    assert!(matches!(c, b'0'..=b'9' | b'a'..=b'f' | b'A'..=b'F'));
}

fn ws_ref(b: u8) -> bool { matches!(b, 0 | 9 | 10 | 12 | 13 | 32) }

/// ASCIIHexDecode per ISO 32000-1 §7.4.2: white-space ignored, '>' is EOD, an odd number of digits
/// behaves as if a 0 followed the last digit, anything else is an error.
/// Returns None for error, else (count, bytes).
fn hex_ref<const L: usize>(data: &[u8; L]) -> Option<(usize, [u8; L])> {
    let mut out = [0u8; L];
    let mut n = 0;
    let mut hi: Option<u8> = None;
    let mut i = 0;
    while i < L {
        let b = data[i];
        i += 1;
        if b == b'>' { break; }
        if ws_ref(b) { continue; }
        match hexdigit_ref(b) {
            None => return None,
            Some(d) => match hi {
                None => hi = Some(d),
                Some(h) => { out[n] = (h << 4) | d; n += 1; hi = None; }
            }
        }
    }
    if let Some(h) = hi {
        out[n] = h << 4; n += 1;
    }
    Some((n, out))
}
fn hex_vs_ref<const L: usize>() {
    let data: [u8; L] = kani::any();
    let got = okv(decode_hex(&data));
    let want = hex_ref(&data);
    // inputs the reference rejects are corrupt data: the property allows a value or an error there (no panic)
    if let Some((n, w)) = &want {
        assert!(matches!(&got, Some(g) if same(g, &w[..*n])));
    }
    std::mem::forget(got);
}
#[kani::proof]
#[kani::stub(std::fmt::format, nofmt)]
fn enc_hex_dec_l1() { hex_vs_ref::<1>() }
#[kani::proof]
#[kani::stub(std::fmt::format, nofmt)]
fn enc_hex_dec_l2() { hex_vs_ref::<2>() }
#[kani::proof]
#[kani::stub(std::fmt::format, nofmt)]
fn enc_hex_dec_l3() { hex_vs_ref::<3>() }
#[kani::proof]
#[kani::stub(std::fmt::format, nofmt)]
fn enc_hex_dec_l4() { hex_vs_ref::<4>() }

/// regression (fixed finding): "7>" must decode to [0x70]
#[kani::proof]
#[kani::stub(std::fmt::format, nofmt)]
fn enc_w_hex_odd_digit() {
    let got = okv(decode_hex(b"7>"));
    let ok = matches!(&got, Some(v) if v.len() == 1 && v[0] == 0x70);
    std::mem::forget(got);
    assert!(ok);
}

/// encoder emits exactly two hex digits per byte, accepted by the reference decoder with the same result,
/// and decode_hex inverts it (C16)
fn hex_roundtrip<const L: usize, const L2: usize>() {
    let d: [u8; L] = kani::any();
    let e = encode(&d, &StreamFilter::ASCIIHexDecode).unwrap();      // public dispatcher -> encode_hex
    // two digits per byte; an encoder may also append the EOD marker '>' or a line break (both legal), so leave room
    assert!(e.len() >= 2 * L && e.len() <= L2);
    let mut ea = [b' '; L2];
    let mut i = 0;
    while i < e.len() { ea[i] = e[i]; i += 1; }
    // independent reference decoder accepts it with the same result
    let want = hex_ref(&ea);
    assert!(matches!(&want, Some((n, w)) if *n == L && same(&w[..L], &d)));
    let got = okv(decode_hex(&e));      // (the decode dispatcher makes the Kani compiler panic: third-party decoder code)
    assert!(matches!(&got, Some(g) if same(g, &d)));
    std::mem::forget(got); std::mem::forget(e);
}
#[kani::proof]
#[kani::stub(std::fmt::format, nofmt)]
fn enc_hex_roundtrip_l1() { hex_roundtrip::<1, 4>() }
#[kani::proof]
#[kani::stub(std::fmt::format, nofmt)]
fn enc_hex_roundtrip_l2() { hex_roundtrip::<2, 6>() }
#[kani::proof]
#[kani::stub(std::fmt::format, nofmt)]
fn enc_hex_roundtrip_l3() { hex_roundtrip::<3, 8>() }

// ------------------------------------------------------------------------------------------------
// ASCII85
// ------------------------------------------------------------------------------------------------

/// decoder half of the group lemma: word_85 computes the base-85 value of five digits, rejects values
/// above 2^32-1 and rejects every byte outside '!'..='u'   (all 2^40 five-byte groups)
#[kani::proof]
fn enc_a85_word_value() {
    let s: [u8; 5] = kani::any();
    let dig = |b: u8| b >= 0x21 && b <= 0x75;
    let ok = dig(s[0]) && dig(s[1]) && dig(s[2]) && dig(s[3]) && dig(s[4]);
    let r = word_85(s);
    if !ok { assert!(r.is_none()); return; }
    let d = |i: usize| (s[i] - 0x21) as u64;
    let v = (((d(0) * 85 + d(1)) * 85 + d(2)) * 85 + d(3)) * 85 + d(4);
    if v > u32::MAX as u64 { assert!(r.is_none()); }
    else {
        let w = r.unwrap();
        assert!(u32::from_be_bytes(w) as u64 == v);
    }
}

/// reference ASCII85 decoder (Adobe PostScript LRM §3.13.3 / ISO 32000-1 §7.4.3) on a fixed buffer:
/// white-space ignored, 'z' = four zero bytes (only between groups), groups of five digits '!'..'u'
/// with value <= 2^32-1, a final partial group of n in 2..=4 digits yields n-1 bytes (padded with 'u'),
/// a final partial group of one digit is an error, "~>" terminates and must be present.
/// Bytes after the EOD marker are not part of the encoded data.
fn a85_ref<const L: usize, const O: usize>(data: &[u8; L]) -> Option<(usize, [u8; O])> {
    let mut out = [0u8; O];
    let mut n = 0usize;
    let mut grp = [b'u'; 5];
    let mut g = 0usize;
    let mut i = 0usize;
    let mut eod = false;
    while i < L {
        let b = data[i];
        i += 1;
        if ws_ref(b) { continue; }
        if b == b'~' {
            // next non-white-space byte must be '>'
            if i < L && data[i] == b'>' { eod = true; }
            break;
        }
        if b == b'z' && g == 0 {
            let mut k = 0; while k < 4 { out[n] = 0; n += 1; k += 1; }
            continue;
        }
        if !(b >= 0x21 && b <= 0x75) { return None; }
        grp[g] = b; g += 1;
        if g == 5 {
            let d = |i: usize| (grp[i] - 0x21) as u64;
            let v = (((d(0) * 85 + d(1)) * 85 + d(2)) * 85 + d(3)) * 85 + d(4);
            if v > u32::MAX as u64 { return None; }
            let w = (v as u32).to_be_bytes();
            let mut k = 0; while k < 4 { out[n] = w[k]; n += 1; k += 1; }
            g = 0; grp = [b'u'; 5];
        }
    }
    if !eod { return None; }
    if g == 1 { return None; }
    if g >= 2 {
        let d = |i: usize| (grp[i] - 0x21) as u64;
        let v = (((d(0) * 85 + d(1)) * 85 + d(2)) * 85 + d(3)) * 85 + d(4);
        if v > u32::MAX as u64 { return None; }
        let w = (v as u32).to_be_bytes();
        let mut k = 0; while k < g - 1 { out[n] = w[k]; n += 1; k += 1; }
    }
    Some((n, out))
}

/// decode_85 agrees with the reference decoder on every input the reference accepts (inputs the reference
/// rejects are corrupt data: any value or error is fine, only panics are not -- CBMC checks those anyway).
/// Shape: P symbolic bytes followed by the concrete EOD marker "~>".
fn a85_dec_vs_ref<const P: usize, const L: usize, const O: usize>() {
    let pre: [u8; P] = kani::any();
    let mut data = [0u8; L];
    let mut i = 0;
    while i < P { data[i] = pre[i]; i += 1; }
    data[P] = b'~'; data[P + 1] = b'>';
    // '~' inside the prefix would move the EOD marker; the reference handles it, but "~" not followed by ">" is corrupt
    let want = a85_ref::<L, O>(&data);
    let got = okv(decode_85(&data));
    if let Some((n, w)) = &want {
        // bytes after an early "~>" are not encoded data; decode_85 rejects them, which is corrupt input, not encoder output
        let mut early = false; let mut i = 0; while i < P { if pre[i] == b'~' { early = true; } i += 1; }
        if !early {
            assert!(matches!(&got, Some(g) if same(g, &w[..*n])));
        }
    }
    std::mem::forget(got);
}
#[kani::proof]
#[kani::stub(std::fmt::format, nofmt)]
fn enc_a85_dec_p0() { a85_dec_vs_ref::<0, 2, 4>() }
#[kani::proof]
#[kani::stub(std::fmt::format, nofmt)]
fn enc_a85_dec_p1() { a85_dec_vs_ref::<1, 3, 4>() }
#[kani::proof]
#[kani::stub(std::fmt::format, nofmt)]
fn enc_a85_dec_p2() { a85_dec_vs_ref::<2, 4, 8>() }
#[kani::proof]
#[kani::stub(std::fmt::format, nofmt)]
fn enc_a85_dec_p3() { a85_dec_vs_ref::<3, 5, 12>() }
#[kani::proof]
#[kani::stub(std::fmt::format, nofmt)]
fn enc_a85_dec_p4() { a85_dec_vs_ref::<4, 6, 16>() }
#[kani::proof]
#[kani::stub(std::fmt::format, nofmt)]
fn enc_a85_dec_p5() { a85_dec_vs_ref::<5, 7, 20>() }
#[kani::proof]
#[kani::stub(std::fmt::format, nofmt)]
fn enc_a85_dec_p6() { a85_dec_vs_ref::<6, 8, 24>() }

/// regression (fixed finding): form feed between digits must be ignored
#[kani::proof]
#[kani::stub(std::fmt::format, nofmt)]
fn enc_w_a85_ws() {
    let got = okv(decode_85(b"\x0c!!~>"));
    let ok = matches!(&got, Some(v) if v.len() == 1 && v[0] == 0);
    std::mem::forget(got);
    assert!(ok);
}

/// decode_85 on arbitrary bytes (no EOD guaranteed): error or value, never a panic, never out of bounds
fn a85_dec_total<const L: usize>() {
    let data: [u8; L] = kani::any();
    let got = okv(decode_85(&data));
    if let Some(g) = &got { assert!(g.len() <= (L + 4) / 5 * 4 + 4 * L); }
    std::mem::forget(got);
}
#[kani::proof]
#[kani::stub(std::fmt::format, nofmt)]
fn enc_a85_dec_total_l3() { a85_dec_total::<3>() }
#[kani::proof]
#[kani::stub(std::fmt::format, nofmt)]
fn enc_a85_dec_total_l4() { a85_dec_total::<4>() }

/// reference ASCII85 *encoder* output length: 5 per full group ('z' = 1 for an all-zero group), r+1 for a tail of r, +2
/// The real encoder's output must be accepted by the reference decoder and give back the input (C16).
fn a85_enc_vs_refdec<const N: usize, const L: usize, const O: usize>() {
    let d: [u8; N] = kani::any();
    let e = encode(&d, &StreamFilter::ASCII85Decode).unwrap();       // public dispatcher -> encode_85
    assert!(e.len() <= L && e.len() >= 2);
    let mut ea = [b' '; L];      // right-padded with white-space, which the reference ignores after EOD
    let mut i = 0;
    while i < e.len() { ea[i] = e[i]; i += 1; }
    assert!(ea[e.len() - 2] == b'~' && ea[e.len() - 1] == b'>');
    let mut k = 0;
    while k + 2 < e.len() { assert!((ea[k] >= 0x21 && ea[k] <= 0x75) || ea[k] == b'z' || ws_ref(ea[k])); k += 1; }
    let want = a85_ref::<L, O>(&ea);
    assert!(matches!(&want, Some((n, w)) if *n == N && same(&w[..N], &d)));
    std::mem::forget(e);
}
#[kani::proof]
fn enc_a85_enc_n0() { a85_enc_vs_refdec::<0, 2, 4>() }
#[kani::proof]
fn enc_a85_enc_n1() { a85_enc_vs_refdec::<1, 4, 4>() }
#[kani::proof]
fn enc_a85_enc_n2() { a85_enc_vs_refdec::<2, 5, 4>() }
#[kani::proof]
fn enc_a85_enc_n3() { a85_enc_vs_refdec::<3, 6, 4>() }

// ------------------------------------------------------------------------------------------------
// RunLength
// ------------------------------------------------------------------------------------------------

/// RunLengthDecode per ISO 32000-1 §7.4.5 on a fixed buffer. None = truncated (corrupt) input.
/// `small` restricts *length bytes* (as determined by this walk) to 0..=3, 128 and 250..=255 so that run counts stay <= 7:
/// a symbolic-count Vec::extend makes the propositional encoding blow up (probe: out of memory at 8 GB).
fn rl_ref<const L: usize, const O: usize>(d: &[u8; L], small: bool) -> Option<(usize, [u8; O])> {
    let mut out = [0u8; O];
    let mut n = 0usize;
    let mut c = 0usize;
    while c < L {
        let len = d[c] as usize;
        if small { kani::assume(len <= 3 || len == 128 || len >= 250); }
        if len < 128 {
            if c + 1 + len + 1 > L { return None; }
            let mut k = 0;
            while k < len + 1 { if n < O { out[n] = d[c + 1 + k]; } n += 1; k += 1; }
            c += len + 2;
        } else if len == 128 {
            break;
        } else {
            if c + 1 >= L { return None; }
            let mut k = 0;
            while k < 257 - len { if n < O { out[n] = d[c + 1]; } n += 1; k += 1; }
            c += 2;
        }
    }
    Some((n, out))
}
fn rl_vs_ref<const L: usize>() {
    let data: [u8; L] = kani::any();
    let want = rl_ref::<L, 32>(&data, true);
    let got = okv(run_length_decode(&data));
    if let Some((n, w)) = &want {
        let ok = match &got {
            Some(g) => {
                let k: usize = kani::any();
                g.len() == *n && (k >= *n || g[k] == w[k])
            }
            None => false,
        };
        assert!(ok);
    }
    std::mem::forget(got);
}
#[kani::proof]
#[kani::stub(std::fmt::format, nofmt)]
fn enc_rl_l1() { rl_vs_ref::<1>() }
#[kani::proof]
#[kani::stub(std::fmt::format, nofmt)]
fn enc_rl_l2() { rl_vs_ref::<2>() }
#[kani::proof]
#[kani::stub(std::fmt::format, nofmt)]
fn enc_rl_l3() { rl_vs_ref::<3>() }
#[kani::proof]
#[kani::stub(std::fmt::format, nofmt)]
fn enc_rl_l4() { rl_vs_ref::<4>() }
/// concrete extreme length bytes: 129 (128 copies) and 127 (128 literal bytes), data symbolic
#[kani::proof]
#[kani::stub(std::fmt::format, nofmt)]
fn enc_rl_max_repeat() {
    let b: u8 = kani::any();
    let got = okv(run_length_decode(&[129, b, 128]));
    let k: usize = kani::any();
    let ok = matches!(&got, Some(g) if g.len() == 128 && (k >= 128 || g[k] == b));
    std::mem::forget(got);
    assert!(ok);
}
#[kani::proof]
#[kani::stub(std::fmt::format, nofmt)]
fn enc_rl_max_literal() {
    let mut d = [0u8; 130];
    let x: u8 = kani::any(); let y: u8 = kani::any();
    d[0] = 127; d[1] = x; d[128] = y; d[129] = 128;
    let got = okv(run_length_decode(&d));
    let ok = matches!(&got, Some(g) if g.len() == 128 && g[0] == x && g[127] == y);
    std::mem::forget(got);
    assert!(ok);
}

// ------------------------------------------------------------------------------------------------
// Flate + predictor geometry.  The compressed data is a raw-deflate *stored* block built here around symbolic
// payload bytes, so libflate runs with concrete control flow and the claim is about the un-prediction geometry.
// ------------------------------------------------------------------------------------------------

/// reference un-predictor for PNG predictors (10..=15): rows of 1 tag byte + `stride` bytes
fn png_ref<const R: usize, const S: usize, const T: usize>(payload: &[u8; T], bpp: usize) -> [[u8; S]; R] {
    let mut out = [[0u8; S]; R];
    let zero = [0u8; S];
    let mut r = 0;
    while r < R {
        let tag = payload[r * (S + 1)];
        let mut inp = [0u8; S];
        let mut i = 0; while i < S { inp[i] = payload[r * (S + 1) + 1 + i]; i += 1; }
        let prev = if r == 0 { zero } else { out[r - 1] };
        let mut row = [0u8; S];
        recon_ref(tag, bpp, &prev, &inp, &mut row);
        out[r] = row;
        r += 1;
    }
    out
}
fn flate_png<const R: usize, const S: usize, const T: usize, const D: usize>(predictor: i32, colors: i32, bpc: i32, columns: i32) {
    // T = R*(S+1) payload bytes, D = T+5 stored-block bytes
    let mut payload: [u8; T] = kani::any();
    let mut r = 0;
    while r < R { kani::assume(payload[r * (S + 1)] <= 4); r += 1; }
    let mut data = [0u8; D];
    data[0] = 0x01; data[1] = T as u8; data[2] = 0; data[3] = !(T as u8); data[4] = 0xff;
    let mut i = 0; while i < T { data[5 + i] = payload[i]; i += 1; }
    let params = LZWFlateParams { predictor, n_components: colors, bits_per_component: bpc, columns, early_change: 1 };
    let got = okv(flate_decode(&data, &params));
    let bpp = ((colors * bpc + 7) / 8) as usize;       // bytes per complete pixel, rounded up (PNG specification)
    let want = png_ref::<R, S, T>(&payload, bpp);
    let ok = match &got {
        Some(g) => {
            let k: usize = kani::any();
            g.len() == R * S && (k >= R * S || g[k] == want[k / S][k % S])
        }
        None => false,
    };
    std::mem::forget(got);
    assert!(ok);
}
// (predictor, colors, bpc, columns) -> stride S = ceil(columns*colors*bpc/8)
#[kani::proof]
#[kani::stub(std::fmt::format, nofmt)]
fn enc_flate_p12_c1_b8_w2() { flate_png::<2, 2, 6, 11>(12, 1, 8, 2) }
#[kani::proof]
#[kani::stub(std::fmt::format, nofmt)]
fn enc_flate_p15_c1_b8_w3() { flate_png::<2, 3, 8, 13>(15, 1, 8, 3) }
#[kani::proof]
#[kani::stub(std::fmt::format, nofmt)]
fn enc_flate_p15_c3_b8_w1() { flate_png::<2, 3, 8, 13>(15, 3, 8, 1) }
#[kani::proof]
#[kani::stub(std::fmt::format, nofmt)]
fn enc_flate_p11_c2_b8_w2() { flate_png::<2, 4, 10, 15>(11, 2, 8, 2) }
#[kani::proof]
#[kani::stub(std::fmt::format, nofmt)]
fn enc_flate_p10_c1_b8_w2() { flate_png::<2, 2, 6, 11>(10, 1, 8, 2) }
#[kani::proof]
#[kani::stub(std::fmt::format, nofmt)]
fn enc_flate_p15_c1_b4_w4() { flate_png::<2, 2, 6, 11>(15, 1, 4, 4) }
#[kani::proof]
#[kani::stub(std::fmt::format, nofmt)]
fn enc_flate_p15_c1_b16_w1() { flate_png::<2, 2, 6, 11>(15, 1, 16, 1) }
#[kani::proof]
#[kani::stub(std::fmt::format, nofmt)]
fn enc_flate_p14_c3_b8_w2_r3() { flate_png::<3, 6, 21, 26>(14, 3, 8, 2) }

#[kani::proof]
#[kani::stub(std::fmt::format, nofmt)]
fn enc_flate_p11_c3_b4_w2() { flate_png::<2, 3, 8, 13>(11, 3, 4, 2) }
#[kani::proof]
#[kani::stub(std::fmt::format, nofmt)]
fn enc_flate_p14_c3_b4_w2() { flate_png::<2, 3, 8, 13>(14, 3, 4, 2) }

/// predictor 1 (none): data returned as inflated
#[kani::proof]
#[kani::stub(std::fmt::format, nofmt)]
fn enc_flate_p1() {
    let payload: [u8; 4] = kani::any();
    let data = [0x01u8, 4, 0, !4u8, 0xff, payload[0], payload[1], payload[2], payload[3]];
    let params = LZWFlateParams { predictor: 1, n_components: 1, bits_per_component: 8, columns: 1, early_change: 1 };
    let got = okv(flate_decode(&data, &params));
    let ok = matches!(&got, Some(g) if same(g, &payload));
    std::mem::forget(got);
    assert!(ok);
}

/// truncated / odd-sized predictor data: D symbolic data bytes that do NOT form whole rows -- value or error, never a panic
fn flate_ragged<const T: usize, const D: usize>(predictor: i32, colors: i32, bpc: i32, columns: i32) {
    let payload: [u8; T] = kani::any();
    let mut data = [0u8; D];
    data[0] = 0x01; data[1] = T as u8; data[2] = 0; data[3] = !(T as u8); data[4] = 0xff;
    let mut i = 0; while i < T { data[5 + i] = payload[i]; i += 1; }
    let params = LZWFlateParams { predictor, n_components: colors, bits_per_component: bpc, columns, early_change: 1 };
    let got = okv(flate_decode(&data, &params));
    if let Some(g) = &got { assert!(g.len() <= T); }
    std::mem::forget(got);
}
// rows of 1 tag + 2 bytes; 5 bytes = one row and a row that is one byte short; 4 bytes = one row + tag only; 2 bytes = short first row
#[kani::proof]
#[kani::stub(std::fmt::format, nofmt)]
fn enc_flate_ragged_t5() { flate_ragged::<5, 10>(12, 1, 8, 2) }
#[kani::proof]
#[kani::stub(std::fmt::format, nofmt)]
fn enc_flate_ragged_t4() { flate_ragged::<4, 9>(12, 1, 8, 2) }
#[kani::proof]
#[kani::stub(std::fmt::format, nofmt)]
fn enc_flate_ragged_t2() { flate_ragged::<2, 7>(15, 1, 8, 2) }

/// hostile decode parameters (C14): one of Colors / BitsPerComponent / Columns ranges over EVERY i32 while the other two take
/// extreme values (-1, 0, 1, i32::MAX) -- a symbolic three-way product is beyond the SAT back end. Error or value, never a panic
/// (the parameters come straight from the /DecodeParms dictionary).
fn flate_hostile(colors: i32, bpc: i32, columns: i32) {
    let data = [0x01u8, 2, 0, !2u8, 0xff, 0, 0];
    let params = LZWFlateParams { predictor: 12, n_components: colors, bits_per_component: bpc, columns, early_change: 1 };
    let got = okv(flate_decode(&data, &params));
    if let Some(g) = &got { assert!(g.len() <= 2); }
    std::mem::forget(got);
}
#[kani::proof]
#[kani::stub(std::fmt::format, nofmt)]
fn enc_flate_hostile_colors() { let v: i32 = kani::any(); flate_hostile(v, i32::MAX, i32::MAX); flate_hostile(v, 8, -1); flate_hostile(v, 1, 1); }
#[kani::proof]
#[kani::stub(std::fmt::format, nofmt)]
fn enc_flate_hostile_bits() { let v: i32 = kani::any(); flate_hostile(i32::MAX, v, i32::MAX); flate_hostile(-1, v, 1); flate_hostile(1, v, 1); }
#[kani::proof]
#[kani::stub(std::fmt::format, nofmt)]
fn enc_flate_hostile_columns() { let v: i32 = kani::any(); flate_hostile(i32::MAX, i32::MAX, v); flate_hostile(1, 8, v); flate_hostile(0, 0, v); }

/// native replay target of engine M's ASCII85 group query (CBMC cannot decide this one: /85 and %85 over 32 bits)
#[kani::proof]
fn enc_m_a85_group_replay() {
    let c: [u8; 4] = kani::any();
    let e = base85_chunk(c);
    assert!(e.iter().all(|&b| b >= 0x21 && b <= 0x75));
    assert!(word_85(e) == Some(c));
}

/// native evaluation of the two ASCII85 kernels (translator validation of engine M against the CURRENT tree)
#[kani::proof]
fn enc_m_eval() {
    let sel: u8 = kani::any();
    let inp: [u8; 5] = kani::any();
    #[cfg(verif_replay)]
    {
        if sel == 0 { println!("M2S-OUT {:?}", Some(base85_chunk([inp[0], inp[1], inp[2], inp[3]]).to_vec())); }
        else { println!("M2S-OUT {:?}", word_85(inp).map(|a| a.to_vec())); }
    }
}

/// a partial tail AFTER a full group whose bytes are large: the padding of the tail group must be zero, not left-overs
/// (first group concrete so that its base-85 division is concrete; the tail bytes are symbolic)
fn a85_tail_after_group<const T: usize, const N: usize, const L: usize, const O: usize>() {
    let t: [u8; T] = kani::any();
    let mut d = [0u8; N];
    d[0] = 0x01; d[1] = 0x02; d[2] = 0xfe; d[3] = 0xff;
    let mut i = 0; while i < T { d[4 + i] = t[i]; i += 1; }
    let e = encode(&d, &StreamFilter::ASCII85Decode).unwrap();
    assert!(e.len() >= 2 && e.len() <= L);
    let mut ea = [b' '; L];
    let mut i = 0; while i < e.len() { ea[i] = e[i]; i += 1; }
    let want = a85_ref::<L, O>(&ea);
    assert!(matches!(&want, Some((n, w)) if *n == N && same(&w[..N], &d)));
    std::mem::forget(e);
}
#[kani::proof]
fn enc_a85_enc_tail1_after_group() { a85_tail_after_group::<1, 5, 10, 8>() }
#[kani::proof]
fn enc_a85_enc_tail2_after_group() { a85_tail_after_group::<2, 6, 11, 8>() }

/// three rows of one byte each (1 column, 8 bits): every combination of row filters incl. a None row between filtered rows
#[kani::proof]
#[kani::stub(std::fmt::format, nofmt)]
fn enc_flate_p13_c1_b8_w1_r3() { flate_png::<3, 1, 6, 11>(13, 1, 8, 1) }
/// same, with a 3-byte tail 41 42 t (t symbolic): four digits are written, so a non-zero fourth byte of the group would show
#[kani::proof]
fn enc_a85_enc_tail3_after_group() {
    let t: u8 = kani::any();
    let d = [0x01u8, 0x02, 0xfe, 0xff, 0x41, 0x42, t];
    let e = encode(&d, &StreamFilter::ASCII85Decode).unwrap();
    assert!(e.len() >= 2 && e.len() <= 12);
    let mut ea = [b' '; 12];
    let mut i = 0; while i < e.len() { ea[i] = e[i]; i += 1; }
    let want = a85_ref::<12, 8>(&ea);
    assert!(matches!(&want, Some((n, w)) if *n == 7 && same(&w[..7], &d)));
    std::mem::forget(e);
}

/// word sequences around the all-zero shorthand `z`: whatever the encoder does with a zero word, the words before and after it
/// must still be there (concrete words, one symbolic byte so that the base-85 division stays decidable)
fn a85_words<const N: usize, const L: usize, const O: usize>(d: [u8; N]) {
    let e = encode(&d, &StreamFilter::ASCII85Decode).unwrap();
    assert!(e.len() >= 2 && e.len() <= L);
    let mut ea = [b' '; L];
    let mut i = 0; while i < e.len() { ea[i] = e[i]; i += 1; }
    let want = a85_ref::<L, O>(&ea);
    assert!(matches!(&want, Some((n, w)) if *n == N && same(&w[..N], &d)));
    std::mem::forget(e);
}
#[kani::proof]
fn enc_a85_enc_zero_then_word() { let t: u8 = kani::any(); a85_words::<8, 12, 8>([0, 0, 0, 0, 0x41, 0x42, 0x43, t]) }
#[kani::proof]
fn enc_a85_enc_word_then_zero() { let t: u8 = kani::any(); a85_words::<8, 12, 8>([0x41, 0x42, 0x43, t, 0, 0, 0, 0]) }
#[kani::proof]
fn enc_a85_enc_zero_zero_word_tail() { let t: u8 = kani::any(); a85_words::<13, 20, 16>([0, 0, 0, 0, 0, 0, 0, 0, 0xfe, 0xff, 0x01, t, t]) }
