//@ target: pdf/src/content.rs
// C08: every operator keyword of ISO 32000-1 Table 51 applied to well-formed operands yields the operation(s) the
// specification defines, operands in order (OpBuilder::add, the real dispatch). Numeric operands are symbolic (finite reals
// or integers -- both are legal numeric spellings), names and strings concrete.
use super::*;

fn nofmt(_a: std::fmt::Arguments<'_>) -> String { String::new() }
fn ii_stub(_lexer: &mut Lexer, _resolve: &impl Resolve) -> Result<Arc<ImageXObject>> { Err(PdfError::EOF) }

/// an arbitrary numeric operand and the value it denotes. Whether the operands of a harness are written as reals or as
/// integers (both are legal numeric spellings) is chosen once per harness, symbolically.
static mut AS_REAL: Option<bool> = None;
fn as_real() -> bool { unsafe { if AS_REAL.is_none() { AS_REAL = Some(kani::any()); } AS_REAL.unwrap() } }
fn num() -> (Primitive, f32) {
    if as_real() {
        let f: f32 = kani::any();
        kani::assume(f.is_finite());
        (Primitive::Number(f), f)
    } else {
        let i: i32 = kani::any();
        (Primitive::Integer(i), i as f32)
    }
}
fn nm(s: &str) -> Primitive { Primitive::Name(s.into()) }
fn st(s: &[u8]) -> Primitive { Primitive::String(PdfString::new(s.into())) }
fn run(b: &mut OpBuilder, op: &str, args: Vec<Primitive>) -> bool {
    let data = b"";
    let mut lexer = Lexer::new(data);
    let r = b.add(op, args.into_iter(), &mut lexer, &NoResolve);
    let ok = r.is_ok();
    std::mem::forget(r);
    ok
}
fn is_name(n: &Name, s: &str) -> bool { n.as_str() == s }
fn is_str(t: &PdfString, s: &[u8]) -> bool { t.as_bytes() == s }

macro_rules! harness {
    ($name:ident, |$b:ident| $body:block) => {
        fn $name() {
            unsafe { AS_REAL = None; }
            let mut builder = OpBuilder::new();
            let ok: bool = { let $b = &mut builder; $body };
            assert!(ok);
            std::mem::forget(builder);
        }
    };
}
/// operators without operands: keyword -> exact operation list
macro_rules! nullary {
    ($name:ident, $op:expr, $n:expr, |$ops:ident| $check:expr) => {
        harness!($name, |b| {
            let r = run(b, $op, vec![]);
            let $ops = &b.ops;
            r && $ops.len() == $n && $check
        });
    };
}
use Winding::*;
nullary!(content_op_b, "b", 2, |o| matches!(o[0], Op::Close) && matches!(o[1], Op::FillAndStroke { winding: NonZero }));
nullary!(content_op_B, "B", 1, |o| matches!(o[0], Op::FillAndStroke { winding: NonZero }));
nullary!(content_op_bstar, "b*", 2, |o| matches!(o[0], Op::Close) && matches!(o[1], Op::FillAndStroke { winding: EvenOdd }));
nullary!(content_op_Bstar, "B*", 1, |o| matches!(o[0], Op::FillAndStroke { winding: EvenOdd }));
nullary!(content_op_BT, "BT", 1, |o| matches!(o[0], Op::BeginText));
nullary!(content_op_ET, "ET", 1, |o| matches!(o[0], Op::EndText));
nullary!(content_op_EMC, "EMC", 1, |o| matches!(o[0], Op::EndMarkedContent));
nullary!(content_op_f, "f", 1, |o| matches!(o[0], Op::Fill { winding: NonZero }));
nullary!(content_op_F, "F", 1, |o| matches!(o[0], Op::Fill { winding: NonZero }));
nullary!(content_op_fstar, "f*", 1, |o| matches!(o[0], Op::Fill { winding: EvenOdd }));
nullary!(content_op_h, "h", 1, |o| matches!(o[0], Op::Close));
nullary!(content_op_n, "n", 1, |o| matches!(o[0], Op::EndPath));
nullary!(content_op_q, "q", 1, |o| matches!(o[0], Op::Save));
nullary!(content_op_Q, "Q", 1, |o| matches!(o[0], Op::Restore));
nullary!(content_op_s, "s", 2, |o| matches!(o[0], Op::Close) && matches!(o[1], Op::Stroke));
nullary!(content_op_S, "S", 1, |o| matches!(o[0], Op::Stroke));
nullary!(content_op_Tstar, "T*", 1, |o| matches!(o[0], Op::TextNewline));
nullary!(content_op_W, "W", 1, |o| matches!(o[0], Op::Clip { winding: NonZero }));
nullary!(content_op_Wstar, "W*", 1, |o| matches!(o[0], Op::Clip { winding: EvenOdd }));

/// operators with one numeric operand
macro_rules! unary_num {
    ($name:ident, $op:expr, |$o:ident, $v:ident| $check:expr) => {
        harness!($name, |b| {
            let (p, $v) = num();
            let r = run(b, $op, vec![p]);
            let $o = &b.ops;
            r && $o.len() == 1 && $check
        });
    };
}
unary_num!(content_op_G, "G", |o, v| matches!(o[0], Op::StrokeColor { color: Color::Gray(g) } if g == v));
unary_num!(content_op_g, "g", |o, v| matches!(o[0], Op::FillColor { color: Color::Gray(g) } if g == v));
unary_num!(content_op_i, "i", |o, v| matches!(o[0], Op::Flatness { tolerance } if tolerance == v));
unary_num!(content_op_M, "M", |o, v| matches!(o[0], Op::MiterLimit { limit } if limit == v));
unary_num!(content_op_Tc, "Tc", |o, v| matches!(o[0], Op::CharSpacing { char_space } if char_space == v));
unary_num!(content_op_TL, "TL", |o, v| matches!(o[0], Op::Leading { leading } if leading == v));
unary_num!(content_op_Ts, "Ts", |o, v| matches!(o[0], Op::TextRise { rise } if rise == v));
unary_num!(content_op_Tw, "Tw", |o, v| matches!(o[0], Op::WordSpacing { word_space } if word_space == v));
unary_num!(content_op_Tz, "Tz", |o, v| matches!(o[0], Op::TextScaling { horiz_scale } if horiz_scale == v));
unary_num!(content_op_w, "w", |o, v| matches!(o[0], Op::LineWidth { width } if width == v));

/// operators with one name operand
macro_rules! unary_name {
    ($name:ident, $op:expr, |$o:ident| $check:expr) => {
        harness!($name, |b| {
            let r = run(b, $op, vec![nm("N1")]);
            let $o = &b.ops;
            r && $o.len() == 1 && $check
        });
    };
}
unary_name!(content_op_CS, "CS", |o| matches!(&o[0], Op::StrokeColorSpace { name } if is_name(name, "N1")));
unary_name!(content_op_cs, "cs", |o| matches!(&o[0], Op::FillColorSpace { name } if is_name(name, "N1")));
unary_name!(content_op_Do, "Do", |o| matches!(&o[0], Op::XObject { name } if is_name(name, "N1")));
unary_name!(content_op_gs, "gs", |o| matches!(&o[0], Op::GraphicsState { name } if is_name(name, "N1")));
unary_name!(content_op_sh, "sh", |o| matches!(&o[0], Op::Shade { name } if is_name(name, "N1")));
unary_name!(content_op_BMC, "BMC", |o| matches!(&o[0], Op::BeginMarkedContent { tag, properties: None } if is_name(tag, "N1")));
unary_name!(content_op_MP, "MP", |o| matches!(&o[0], Op::MarkedContentPoint { tag, properties: None } if is_name(tag, "N1")));

harness!(content_op_BDC, |b| {
    let r = run(b, "BDC", vec![nm("T1"), nm("P1")]);
    r && b.ops.len() == 1 && matches!(&b.ops[0], Op::BeginMarkedContent { tag, properties: Some(Primitive::Name(p)) } if is_name(tag, "T1") && p.as_str() == "P1")
});
harness!(content_op_DP, |b| {
    let r = run(b, "DP", vec![nm("T1"), nm("P1")]);
    r && b.ops.len() == 1 && matches!(&b.ops[0], Op::MarkedContentPoint { tag, properties: Some(Primitive::Name(p)) } if is_name(tag, "T1") && p.as_str() == "P1")
});

// path construction
harness!(content_op_m, |b| {
    let (p0, x0) = num(); let (p1, y0) = num();
    let r = run(b, "m", vec![p0, p1]);
    r && b.ops.len() == 1 && matches!(b.ops[0], Op::MoveTo { p } if p.x == x0 && p.y == y0) && b.last.x == x0 && b.last.y == y0
});
harness!(content_op_l, |b| {
    let (p0, x0) = num(); let (p1, y0) = num();
    let r = run(b, "l", vec![p0, p1]);
    r && b.ops.len() == 1 && matches!(b.ops[0], Op::LineTo { p } if p.x == x0 && p.y == y0) && b.last.x == x0 && b.last.y == y0
});
harness!(content_op_c, |b| {
    let (a0, v0) = num(); let (a1, v1) = num(); let (a2, v2) = num(); let (a3, v3) = num(); let (a4, v4) = num(); let (a5, v5) = num();
    let r = run(b, "c", vec![a0, a1, a2, a3, a4, a5]);
    r && b.ops.len() == 1 && matches!(b.ops[0], Op::CurveTo { c1, c2, p } if c1.x == v0 && c1.y == v1 && c2.x == v2 && c2.y == v3 && p.x == v4 && p.y == v5)
      && b.last.x == v4 && b.last.y == v5
});
harness!(content_op_y, |b| {
    let (a0, v0) = num(); let (a1, v1) = num(); let (a2, v2) = num(); let (a3, v3) = num();
    let r = run(b, "y", vec![a0, a1, a2, a3]);
    r && b.ops.len() == 1 && matches!(b.ops[0], Op::CurveTo { c1, c2, p } if c1.x == v0 && c1.y == v1 && c2.x == v2 && c2.y == v3 && p.x == v2 && p.y == v3)
      && b.last.x == v2 && b.last.y == v3
});
/// `v` takes its first control point from the current point (OpBuilder.last, ANY value: the harnesses for m, l, c, v, y show
/// that each of them leaves its end point there -- an inductive decomposition of "v after any path operator")
harness!(content_op_v, |b| {
    let lx: f32 = kani::any(); let ly: f32 = kani::any();
    kani::assume(lx.is_finite() && ly.is_finite());
    b.last = Point { x: lx, y: ly };
    let (a2, v2) = num(); let (a3, v3) = num(); let (a4, v4) = num(); let (a5, v5) = num();
    let r = run(b, "v", vec![a2, a3, a4, a5]);
    r && b.ops.len() == 1 && matches!(b.ops[0], Op::CurveTo { c1, c2, p } if c1.x == lx && c1.y == ly && c2.x == v2 && c2.y == v3 && p.x == v4 && p.y == v5)
      && b.last.x == v4 && b.last.y == v5
});
/// operators that do not define a new current point in this implementation must leave it alone (both the parser and the
/// serializer ignore `re` and `h` for the purpose of the v shorthand; they have to agree)
harness!(content_op_re, |b| {
    let lx: f32 = kani::any(); let ly: f32 = kani::any();
    kani::assume(lx.is_finite() && ly.is_finite());
    b.last = Point { x: lx, y: ly };
    let (a0, v0) = num(); let (a1, v1) = num(); let (a2, v2) = num(); let (a3, v3) = num();
    let r = run(b, "re", vec![a0, a1, a2, a3]);
    r && b.ops.len() == 1 && matches!(b.ops[0], Op::Rect { rect } if rect.x == v0 && rect.y == v1 && rect.width == v2 && rect.height == v3)
      && b.last.x == lx && b.last.y == ly
});
harness!(content_op_cm, |b| {
    let (a0, v0) = num(); let (a1, v1) = num(); let (a2, v2) = num(); let (a3, v3) = num(); let (a4, v4) = num(); let (a5, v5) = num();
    let r = run(b, "cm", vec![a0, a1, a2, a3, a4, a5]);
    r && b.ops.len() == 1 && matches!(b.ops[0], Op::Transform { matrix: m } if m.a == v0 && m.b == v1 && m.c == v2 && m.d == v3 && m.e == v4 && m.f == v5)
});
harness!(content_op_Tm, |b| {
    let (a0, v0) = num(); let (a1, v1) = num(); let (a2, v2) = num(); let (a3, v3) = num(); let (a4, v4) = num(); let (a5, v5) = num();
    let r = run(b, "Tm", vec![a0, a1, a2, a3, a4, a5]);
    r && b.ops.len() == 1 && matches!(b.ops[0], Op::SetTextMatrix { matrix: m } if m.a == v0 && m.b == v1 && m.c == v2 && m.d == v3 && m.e == v4 && m.f == v5)
});
macro_rules! rgb_op {
    ($name:ident, $op:expr, $stroke:expr) => {
        harness!($name, |b| {
            let (a0, v0) = num(); let (a1, v1) = num(); let (a2, v2) = num();
            let r = run(b, $op, vec![a0, a1, a2]);
            r && b.ops.len() == 1 && match b.ops[0] {
                Op::StrokeColor { color: Color::Rgb(c) } => $stroke && c.red == v0 && c.green == v1 && c.blue == v2,
                Op::FillColor { color: Color::Rgb(c) } => !$stroke && c.red == v0 && c.green == v1 && c.blue == v2,
                _ => false }
        });
    };
}
rgb_op!(content_op_RG, "RG", true);
rgb_op!(content_op_rg, "rg", false);
macro_rules! cmyk_op {
    ($name:ident, $op:expr, $stroke:expr) => {
        harness!($name, |b| {
            let (a0, v0) = num(); let (a1, v1) = num(); let (a2, v2) = num(); let (a3, v3) = num();
            let r = run(b, $op, vec![a0, a1, a2, a3]);
            r && b.ops.len() == 1 && match b.ops[0] {
                Op::StrokeColor { color: Color::Cmyk(c) } => $stroke && c.cyan == v0 && c.magenta == v1 && c.yellow == v2 && c.key == v3,
                Op::FillColor { color: Color::Cmyk(c) } => !$stroke && c.cyan == v0 && c.magenta == v1 && c.yellow == v2 && c.key == v3,
                _ => false }
        });
    };
}
cmyk_op!(content_op_K, "K", true);
cmyk_op!(content_op_k, "k", false);
macro_rules! other_color_op {
    ($name:ident, $op:expr, $stroke:expr) => {
        harness!($name, |b| {
            let (a0, v0) = num();
            let r = run(b, $op, vec![a0, nm("P0")]);
            let chk = |v: &Vec<Primitive>| v.len() == 2 && matches!(v[0].as_number(), Ok(x) if x == v0)
                && matches!(&v[1], Primitive::Name(n) if n.as_str() == "P0");
            r && b.ops.len() == 1 && match &b.ops[0] {
                Op::StrokeColor { color: Color::Other(v) } => $stroke && chk(v),
                Op::FillColor { color: Color::Other(v) } => !$stroke && chk(v),
                _ => false }
        });
    };
}
other_color_op!(content_op_SC, "SC", true);
other_color_op!(content_op_SCN, "SCN", true);
other_color_op!(content_op_sc, "sc", false);
other_color_op!(content_op_scn, "scn", false);
harness!(content_op_d, |b| {
    let (a0, v0) = num(); let (a2, v2) = num();
    let r = run(b, "d", vec![Primitive::Array(vec![a0]), a2]);
    r && b.ops.len() == 1 && matches!(&b.ops[0], Op::Dash { pattern, phase } if pattern.len() == 1 && pattern[0] == v0 && *phase == v2)
});
harness!(content_op_J, |b| {
    let n: i32 = kani::any();
    let r = run(b, "J", vec![Primitive::Integer(n)]);
    // values outside 0..=2 are not well-formed operands: anything but a panic is acceptable there
    if n < 0 || n > 2 { true } else { r && b.ops.len() == 1 && matches!(b.ops[0], Op::LineCap { cap } if cap as i32 == n) }
});
harness!(content_op_j, |b| {
    let n: i32 = kani::any();
    let r = run(b, "j", vec![Primitive::Integer(n)]);
    if n < 0 || n > 2 { true } else { r && b.ops.len() == 1 && matches!(b.ops[0], Op::LineJoin { join } if join as i32 == n) }
});
harness!(content_op_Tr, |b| {
    let n: i32 = kani::any();
    let r = run(b, "Tr", vec![Primitive::Integer(n)]);
    if n < 0 || n > 5 { true } else {
        r && b.ops.len() == 1 && matches!(b.ops[0], Op::TextRenderMode { mode } if mode as i32 == n)
    }
});
macro_rules! ri_op {
    ($name:ident, $s:expr) => {
        harness!($name, |b| {
            let r = run(b, "ri", vec![nm($s)]);
            r && b.ops.len() == 1 && matches!(b.ops[0], Op::RenderingIntent { intent } if intent.to_str() == $s)
        });
    };
}
ri_op!(content_op_ri_abs, "AbsoluteColorimetric");
ri_op!(content_op_ri_rel, "RelativeColorimetric");
ri_op!(content_op_ri_sat, "Saturation");
ri_op!(content_op_ri_per, "Perceptual");
// text positioning / showing
harness!(content_op_Td, |b| {
    let (a0, v0) = num(); let (a1, v1) = num();
    let r = run(b, "Td", vec![a0, a1]);
    r && b.ops.len() == 1 && matches!(b.ops[0], Op::MoveTextPosition { translation: t } if t.x == v0 && t.y == v1)
});
harness!(content_op_TD, |b| {
    let (a0, v0) = num(); let (a1, v1) = num();
    let r = run(b, "TD", vec![a0, a1]);
    r && b.ops.len() == 2 && matches!(b.ops[0], Op::Leading { leading } if leading == -v1)
      && matches!(b.ops[1], Op::MoveTextPosition { translation: t } if t.x == v0 && t.y == v1)
});
harness!(content_op_Tf, |b| {
    let (a0, v0) = num();
    let r = run(b, "Tf", vec![nm("F1"), a0]);
    r && b.ops.len() == 1 && matches!(&b.ops[0], Op::TextFont { name, size } if is_name(name, "F1") && *size == v0)
});
harness!(content_op_Tj, |b| {
    let r = run(b, "Tj", vec![st(b"ab")]);
    r && b.ops.len() == 1 && matches!(&b.ops[0], Op::TextDraw { text } if is_str(text, b"ab"))
});
harness!(content_op_quote, |b| {
    let r = run(b, "'", vec![st(b"ab")]);
    r && b.ops.len() == 2 && matches!(b.ops[0], Op::TextNewline) && matches!(&b.ops[1], Op::TextDraw { text } if is_str(text, b"ab"))
});
harness!(content_op_dquote, |b| {
    let (a0, v0) = num(); let (a1, v1) = num();
    let r = run(b, "\"", vec![a0, a1, st(b"ab")]);
    r && b.ops.len() == 4 && matches!(b.ops[0], Op::WordSpacing { word_space } if word_space == v0)
      && matches!(b.ops[1], Op::CharSpacing { char_space } if char_space == v1)
      && matches!(b.ops[2], Op::TextNewline) && matches!(&b.ops[3], Op::TextDraw { text } if is_str(text, b"ab"))
});
harness!(content_op_TJ, |b| {
    let (a0, v0) = num();
    let r = run(b, "TJ", vec![Primitive::Array(vec![st(b"a"), a0, st(b"b")])]);
    r && b.ops.len() == 1 && matches!(&b.ops[0], Op::TextDrawAdjusted { array } if array.len() == 3
        && matches!(&array[0], TextDrawAdjusted::Text(t) if is_str(t, b"a"))
        && matches!(array[1], TextDrawAdjusted::Spacing(s) if s == v0)
        && matches!(&array[2], TextDrawAdjusted::Text(t) if is_str(t, b"b")))
});
/// a missing operand (ill-formed input: the property says nothing about the result) must not panic
macro_rules! missing {
    ($name:ident, $op:expr, $args:expr) => {
        harness!($name, |b| { let _r = run(b, $op, $args); b.ops.len() <= 4 });
    };
}
missing!(content_op_missing_m, "m", vec![num().0]);
missing!(content_op_missing_c, "c", vec![num().0, num().0, num().0]);
missing!(content_op_missing_Tf, "Tf", vec![nm("F")]);
missing!(content_op_missing_w, "w", vec![]);
missing!(content_op_missing_Tj, "Tj", vec![]);

// ---- proof harnesses: groups of operators (one goto binary per group keeps compile time down) ----
#[kani::proof]
#[kani::stub(std::fmt::format, nofmt)]
#[kani::stub(crate::content::inline_image, ii_stub)]
fn content_grp_paint() { content_op_b(); content_op_B(); content_op_bstar(); content_op_Bstar(); content_op_f(); content_op_F(); content_op_fstar(); content_op_h(); content_op_n(); content_op_s(); content_op_S(); content_op_W(); content_op_Wstar(); }
#[kani::proof]
#[kani::stub(std::fmt::format, nofmt)]
#[kani::stub(crate::content::inline_image, ii_stub)]
fn content_grp_state() { content_op_BT(); content_op_ET(); content_op_EMC(); content_op_q(); content_op_Q(); content_op_Tstar(); }
#[kani::proof]
#[kani::stub(std::fmt::format, nofmt)]
#[kani::stub(crate::content::inline_image, ii_stub)]
fn content_grp_num_a() { content_op_G(); content_op_g(); content_op_i(); content_op_M(); content_op_w(); }
#[kani::proof]
#[kani::stub(std::fmt::format, nofmt)]
#[kani::stub(crate::content::inline_image, ii_stub)]
fn content_grp_num_b() { content_op_Tc(); content_op_TL(); content_op_Ts(); content_op_Tw(); content_op_Tz(); }
#[kani::proof]
#[kani::stub(std::fmt::format, nofmt)]
#[kani::stub(crate::content::inline_image, ii_stub)]
fn content_grp_names() { content_op_CS(); content_op_cs(); content_op_Do(); content_op_gs(); content_op_sh(); content_op_BMC(); content_op_MP(); }
#[kani::proof]
#[kani::stub(std::fmt::format, nofmt)]
#[kani::stub(crate::content::inline_image, ii_stub)]
fn content_grp_marked() { content_op_BDC(); content_op_DP(); }
#[kani::proof]
#[kani::stub(std::fmt::format, nofmt)]
#[kani::stub(crate::content::inline_image, ii_stub)]
fn content_grp_path_a() { content_op_m(); content_op_l(); }
#[kani::proof]
#[kani::stub(std::fmt::format, nofmt)]
#[kani::stub(crate::content::inline_image, ii_stub)]
fn content_grp_path_b() { content_op_v(); content_op_re(); }
#[kani::proof]
#[kani::stub(std::fmt::format, nofmt)]
#[kani::stub(crate::content::inline_image, ii_stub)]
fn content_grp_path_c() { content_op_c(); content_op_y(); }
#[kani::proof]
#[kani::stub(std::fmt::format, nofmt)]
#[kani::stub(crate::content::inline_image, ii_stub)]
fn content_grp_matrix() { content_op_cm(); content_op_Tm(); }
#[kani::proof]
#[kani::stub(std::fmt::format, nofmt)]
#[kani::stub(crate::content::inline_image, ii_stub)]
fn content_grp_rgb() { content_op_RG(); content_op_rg(); }
#[kani::proof]
#[kani::stub(std::fmt::format, nofmt)]
#[kani::stub(crate::content::inline_image, ii_stub)]
fn content_grp_cmyk() { content_op_K(); content_op_k(); }
#[kani::proof]
#[kani::stub(std::fmt::format, nofmt)]
#[kani::stub(crate::content::inline_image, ii_stub)]
fn content_grp_other_color() { content_op_SC(); content_op_SCN(); content_op_sc(); content_op_scn(); }
#[kani::proof]
#[kani::stub(std::fmt::format, nofmt)]
#[kani::stub(crate::content::inline_image, ii_stub)]
fn content_grp_dash() { content_op_d(); }
#[kani::proof]
#[kani::stub(std::fmt::format, nofmt)]
#[kani::stub(crate::content::inline_image, ii_stub)]
fn content_grp_enum() { content_op_J(); content_op_j(); content_op_Tr(); }
#[kani::proof]
#[kani::stub(std::fmt::format, nofmt)]
#[kani::stub(crate::content::inline_image, ii_stub)]
fn content_grp_ri() { content_op_ri_abs(); content_op_ri_rel(); content_op_ri_sat(); content_op_ri_per(); }
#[kani::proof]
#[kani::stub(std::fmt::format, nofmt)]
#[kani::stub(crate::content::inline_image, ii_stub)]
fn content_grp_text_pos() { content_op_Td(); content_op_TD(); content_op_Tf(); }
#[kani::proof]
#[kani::stub(std::fmt::format, nofmt)]
#[kani::stub(crate::content::inline_image, ii_stub)]
fn content_grp_text_show() { content_op_Tj(); content_op_quote(); content_op_dquote(); content_op_TJ(); }
#[kani::proof]
#[kani::stub(std::fmt::format, nofmt)]
#[kani::stub(crate::content::inline_image, ii_stub)]
fn content_grp_missing() { content_op_missing_m(); content_op_missing_c(); content_op_missing_Tf(); content_op_missing_w(); content_op_missing_Tj(); }
