//@ target: pdf/src/content.rs
// C08: every operator keyword of ISO 32000-1 Table 51 applied to well-formed operands yields the operation(s) the
// specification defines, operands in order (OpBuilder::add, the real dispatch). Numeric operands are symbolic (finite reals
// or integers -- both are legal numeric spellings), names and strings concrete.
use super::*;

fn nofmt(_a: std::fmt::Arguments<'_>) -> String { String::new() }
fn ii_stub(_lexer: &mut Lexer, _resolve: &impl Resolve) -> Result<Arc<ImageXObject>> { Err(PdfError::EOF) }

/// an arbitrary numeric operand and the value it denotes
fn num() -> (Primitive, f32) {
    if kani::any::<bool>() {
        let f: f32 = kani::any();
        kani::assume(f.is_finite());
        (Primitive::Number(f), f)
    } else {
        let i: i32 = kani::any();
        (Primitive::Integer(i), i as f32)
    }
}
fn nm(s: &str) -> Primitive { Primitive::Name(s.into()) }
fn st(s: &[u8]) -> Primitive { Primitive::String(PdfString::new(s.into())) }
fn run(b: &mut OpBuilder, op: &str, args: Vec<Primitive>) -> bool {
    let data = b"";
    let mut lexer = Lexer::new(data);
    let r = b.add(op, args.into_iter(), &mut lexer, &NoResolve);
    let ok = r.is_ok();
    std::mem::forget(r);
    ok
}
fn is_name(n: &Name, s: &str) -> bool { n.as_str() == s }
fn is_str(t: &PdfString, s: &[u8]) -> bool { t.as_bytes() == s }

macro_rules! harness {
    ($name:ident, $body:block) => {
        #[kani::proof]
        #[kani::stub(std::fmt::format, nofmt)]
        #[kani::stub(crate::content::inline_image, ii_stub)]
        fn $name() {
            let mut b = OpBuilder::new();
            let ok: bool = { let b = &mut b; $body };
            assert!(ok);
            std::mem::forget(b);
        }
    };
}
/// operators without operands: keyword -> exact operation list
macro_rules! nullary {
    ($name:ident, $op:expr, $n:expr, |$ops:ident| $check:expr) => {
        harness!($name, {
            let r = run(b, $op, vec![]);
            let $ops = &b.ops;
            r && $ops.len() == $n && $check
        });
    };
}
use Winding::*;
nullary!(content_op_b, "b", 2, |o| matches!(o[0], Op::Close) && matches!(o[1], Op::FillAndStroke { winding: NonZero }));
nullary!(content_op_B, "B", 1, |o| matches!(o[0], Op::FillAndStroke { winding: NonZero }));
nullary!(content_op_bstar, "b*", 2, |o| matches!(o[0], Op::Close) && matches!(o[1], Op::FillAndStroke { winding: EvenOdd }));
nullary!(content_op_Bstar, "B*", 1, |o| matches!(o[0], Op::FillAndStroke { winding: EvenOdd }));
nullary!(content_op_BT, "BT", 1, |o| matches!(o[0], Op::BeginText));
nullary!(content_op_ET, "ET", 1, |o| matches!(o[0], Op::EndText));
nullary!(content_op_EMC, "EMC", 1, |o| matches!(o[0], Op::EndMarkedContent));
nullary!(content_op_f, "f", 1, |o| matches!(o[0], Op::Fill { winding: NonZero }));
nullary!(content_op_F, "F", 1, |o| matches!(o[0], Op::Fill { winding: NonZero }));
nullary!(content_op_fstar, "f*", 1, |o| matches!(o[0], Op::Fill { winding: EvenOdd }));
nullary!(content_op_h, "h", 1, |o| matches!(o[0], Op::Close));
nullary!(content_op_n, "n", 1, |o| matches!(o[0], Op::EndPath));
nullary!(content_op_q, "q", 1, |o| matches!(o[0], Op::Save));
nullary!(content_op_Q, "Q", 1, |o| matches!(o[0], Op::Restore));
nullary!(content_op_s, "s", 2, |o| matches!(o[0], Op::Close) && matches!(o[1], Op::Stroke));
nullary!(content_op_S, "S", 1, |o| matches!(o[0], Op::Stroke));
nullary!(content_op_Tstar, "T*", 1, |o| matches!(o[0], Op::TextNewline));
nullary!(content_op_W, "W", 1, |o| matches!(o[0], Op::Clip { winding: NonZero }));
nullary!(content_op_Wstar, "W*", 1, |o| matches!(o[0], Op::Clip { winding: EvenOdd }));

/// operators with one numeric operand
macro_rules! unary_num {
    ($name:ident, $op:expr, |$o:ident, $v:ident| $check:expr) => {
        harness!($name, {
            let (p, $v) = num();
            let r = run(b, $op, vec![p]);
            let $o = &b.ops;
            r && $o.len() == 1 && $check
        });
    };
}
unary_num!(content_op_G, "G", |o, v| matches!(o[0], Op::StrokeColor { color: Color::Gray(g) } if g == v));
unary_num!(content_op_g, "g", |o, v| matches!(o[0], Op::FillColor { color: Color::Gray(g) } if g == v));
unary_num!(content_op_i, "i", |o, v| matches!(o[0], Op::Flatness { tolerance } if tolerance == v));
unary_num!(content_op_M, "M", |o, v| matches!(o[0], Op::MiterLimit { limit } if limit == v));
unary_num!(content_op_Tc, "Tc", |o, v| matches!(o[0], Op::CharSpacing { char_space } if char_space == v));
unary_num!(content_op_TL, "TL", |o, v| matches!(o[0], Op::Leading { leading } if leading == v));
unary_num!(content_op_Ts, "Ts", |o, v| matches!(o[0], Op::TextRise { rise } if rise == v));
unary_num!(content_op_Tw, "Tw", |o, v| matches!(o[0], Op::WordSpacing { word_space } if word_space == v));
unary_num!(content_op_Tz, "Tz", |o, v| matches!(o[0], Op::TextScaling { horiz_scale } if horiz_scale == v));
unary_num!(content_op_w, "w", |o, v| matches!(o[0], Op::LineWidth { width } if width == v));

/// operators with one name operand
macro_rules! unary_name {
    ($name:ident, $op:expr, |$o:ident| $check:expr) => {
        harness!($name, {
            let r = run(b, $op, vec![nm("N1")]);
            let $o = &b.ops;
            r && $o.len() == 1 && $check
        });
    };
}
unary_name!(content_op_CS, "CS", |o| matches!(&o[0], Op::StrokeColorSpace { name } if is_name(name, "N1")));
unary_name!(content_op_cs, "cs", |o| matches!(&o[0], Op::FillColorSpace { name } if is_name(name, "N1")));
unary_name!(content_op_Do, "Do", |o| matches!(&o[0], Op::XObject { name } if is_name(name, "N1")));
unary_name!(content_op_gs, "gs", |o| matches!(&o[0], Op::GraphicsState { name } if is_name(name, "N1")));
unary_name!(content_op_sh, "sh", |o| matches!(&o[0], Op::Shade { name } if is_name(name, "N1")));
unary_name!(content_op_BMC, "BMC", |o| matches!(&o[0], Op::BeginMarkedContent { tag, properties: None } if is_name(tag, "N1")));
unary_name!(content_op_MP, "MP", |o| matches!(&o[0], Op::MarkedContentPoint { tag, properties: None } if is_name(tag, "N1")));

harness!(content_op_BDC, {
    let r = run(b, "BDC", vec![nm("T1"), nm("P1")]);
    r && b.ops.len() == 1 && matches!(&b.ops[0], Op::BeginMarkedContent { tag, properties: Some(Primitive::Name(p)) } if is_name(tag, "T1") && p.as_str() == "P1")
});
harness!(content_op_DP, {
    let r = run(b, "DP", vec![nm("T1"), nm("P1")]);
    r && b.ops.len() == 1 && matches!(&b.ops[0], Op::MarkedContentPoint { tag, properties: Some(Primitive::Name(p)) } if is_name(tag, "T1") && p.as_str() == "P1")
});
harness!(content_op_ri, {
    let which: u8 = kani::any();
    kani::assume(which < 4);
    let s = match which { 0 => "AbsoluteColorimetric", 1 => "RelativeColorimetric", 2 => "Saturation", _ => "Perceptual" };
    let r = run(b, "ri", vec![nm(s)]);
    r && b.ops.len() == 1 && matches!(b.ops[0], Op::RenderingIntent { intent } if intent.to_str() == s)
});

// path construction
harness!(content_op_m_l, {
    let (p0, x0) = num(); let (p1, y0) = num(); let (p2, x1) = num(); let (p3, y1) = num();
    let r = run(b, "m", vec![p0, p1]) && run(b, "l", vec![p2, p3]);
    r && b.ops.len() == 2
      && matches!(b.ops[0], Op::MoveTo { p } if p.x == x0 && p.y == y0)
      && matches!(b.ops[1], Op::LineTo { p } if p.x == x1 && p.y == y1)
});
harness!(content_op_c, {
    let (a0, v0) = num(); let (a1, v1) = num(); let (a2, v2) = num(); let (a3, v3) = num(); let (a4, v4) = num(); let (a5, v5) = num();
    let r = run(b, "c", vec![a0, a1, a2, a3, a4, a5]);
    r && b.ops.len() == 1 && matches!(b.ops[0], Op::CurveTo { c1, c2, p } if c1.x == v0 && c1.y == v1 && c2.x == v2 && c2.y == v3 && p.x == v4 && p.y == v5)
});
harness!(content_op_y, {
    let (a0, v0) = num(); let (a1, v1) = num(); let (a2, v2) = num(); let (a3, v3) = num();
    let r = run(b, "y", vec![a0, a1, a2, a3]);
    r && b.ops.len() == 1 && matches!(b.ops[0], Op::CurveTo { c1, c2, p } if c1.x == v0 && c1.y == v1 && c2.x == v2 && c2.y == v3 && p.x == v2 && p.y == v3)
});
/// `v` takes its first control point from the current point, which every path-construction operator with an end point sets
fn v_after(b: &mut OpBuilder, first: u8) -> bool {
    let (a0, x) = num(); let (a1, y) = num();
    let z = || Primitive::Integer(7);
    let r0 = match first {
        0 => run(b, "m", vec![a0, a1]),
        1 => run(b, "l", vec![a0, a1]),
        2 => run(b, "c", vec![z(), z(), z(), z(), a0, a1]),
        3 => run(b, "v", vec![z(), z(), a0, a1]),
        _ => run(b, "y", vec![z(), z(), a0, a1]),
    };
    let (a2, v2) = num(); let (a3, v3) = num(); let (a4, v4) = num(); let (a5, v5) = num();
    let r1 = run(b, "v", vec![a2, a3, a4, a5]);
    r0 && r1 && b.ops.len() == 2 && matches!(b.ops[1], Op::CurveTo { c1, c2, p } if c1.x == x && c1.y == y && c2.x == v2 && c2.y == v3 && p.x == v4 && p.y == v5)
}
harness!(content_op_v_after_m, { v_after(b, 0) });
harness!(content_op_v_after_l, { v_after(b, 1) });
harness!(content_op_v_after_c, { v_after(b, 2) });
harness!(content_op_v_after_v, { v_after(b, 3) });
harness!(content_op_v_after_y, { v_after(b, 4) });
harness!(content_op_re, {
    let (a0, v0) = num(); let (a1, v1) = num(); let (a2, v2) = num(); let (a3, v3) = num();
    let r = run(b, "re", vec![a0, a1, a2, a3]);
    r && b.ops.len() == 1 && matches!(b.ops[0], Op::Rect { rect } if rect.x == v0 && rect.y == v1 && rect.width == v2 && rect.height == v3)
});
harness!(content_op_cm, {
    let (a0, v0) = num(); let (a1, v1) = num(); let (a2, v2) = num(); let (a3, v3) = num(); let (a4, v4) = num(); let (a5, v5) = num();
    let r = run(b, "cm", vec![a0, a1, a2, a3, a4, a5]);
    r && b.ops.len() == 1 && matches!(b.ops[0], Op::Transform { matrix: m } if m.a == v0 && m.b == v1 && m.c == v2 && m.d == v3 && m.e == v4 && m.f == v5)
});
harness!(content_op_Tm, {
    let (a0, v0) = num(); let (a1, v1) = num(); let (a2, v2) = num(); let (a3, v3) = num(); let (a4, v4) = num(); let (a5, v5) = num();
    let r = run(b, "Tm", vec![a0, a1, a2, a3, a4, a5]);
    r && b.ops.len() == 1 && matches!(b.ops[0], Op::SetTextMatrix { matrix: m } if m.a == v0 && m.b == v1 && m.c == v2 && m.d == v3 && m.e == v4 && m.f == v5)
});
harness!(content_op_RG_rg, {
    let (a0, v0) = num(); let (a1, v1) = num(); let (a2, v2) = num();
    let stroke: bool = kani::any();
    let r = run(b, if stroke { "RG" } else { "rg" }, vec![a0, a1, a2]);
    r && b.ops.len() == 1 && match b.ops[0] {
        Op::StrokeColor { color: Color::Rgb(c) } => stroke && c.red == v0 && c.green == v1 && c.blue == v2,
        Op::FillColor { color: Color::Rgb(c) } => !stroke && c.red == v0 && c.green == v1 && c.blue == v2,
        _ => false }
});
harness!(content_op_K_k, {
    let (a0, v0) = num(); let (a1, v1) = num(); let (a2, v2) = num(); let (a3, v3) = num();
    let stroke: bool = kani::any();
    let r = run(b, if stroke { "K" } else { "k" }, vec![a0, a1, a2, a3]);
    r && b.ops.len() == 1 && match b.ops[0] {
        Op::StrokeColor { color: Color::Cmyk(c) } => stroke && c.cyan == v0 && c.magenta == v1 && c.yellow == v2 && c.key == v3,
        Op::FillColor { color: Color::Cmyk(c) } => !stroke && c.cyan == v0 && c.magenta == v1 && c.yellow == v2 && c.key == v3,
        _ => false }
});
harness!(content_op_SC_sc, {
    let (a0, v0) = num(); let (a1, v1) = num();
    let which: u8 = kani::any();
    kani::assume(which < 4);
    let op = match which { 0 => "SC", 1 => "SCN", 2 => "sc", _ => "scn" };
    let r = run(b, op, vec![a0, a1, nm("P0")]);
    let chk = |v: &Vec<Primitive>| v.len() == 3 && matches!(v[0].as_number(), Ok(x) if x == v0) && matches!(v[1].as_number(), Ok(x) if x == v1)
        && matches!(&v[2], Primitive::Name(n) if n.as_str() == "P0");
    r && b.ops.len() == 1 && match &b.ops[0] {
        Op::StrokeColor { color: Color::Other(v) } => which < 2 && chk(v),
        Op::FillColor { color: Color::Other(v) } => which >= 2 && chk(v),
        _ => false }
});
harness!(content_op_d, {
    let (a0, v0) = num(); let (a1, v1) = num(); let (a2, v2) = num();
    let r = run(b, "d", vec![Primitive::Array(vec![a0, a1]), a2]);
    r && b.ops.len() == 1 && matches!(&b.ops[0], Op::Dash { pattern, phase } if pattern.len() == 2 && pattern[0] == v0 && pattern[1] == v1 && *phase == v2)
});
harness!(content_op_j_J, {
    let n: i32 = kani::any();
    let cap: bool = kani::any();
    let r = run(b, if cap { "J" } else { "j" }, vec![Primitive::Integer(n)]);
    if n < 0 || n > 2 { !r && b.ops.len() == 0 } else {
        r && b.ops.len() == 1 && match b.ops[0] {
            Op::LineCap { cap: c } => cap && c as i32 == n,
            Op::LineJoin { join: j } => !cap && j as i32 == n,
            _ => false }
    }
});
harness!(content_op_Tr, {
    let n: i32 = kani::any();
    let r = run(b, "Tr", vec![Primitive::Integer(n)]);
    if n < 0 || n > 5 { !r && b.ops.len() == 0 } else {
        r && b.ops.len() == 1 && matches!(b.ops[0], Op::TextRenderMode { mode } if mode as i32 == n)
    }
});
// text positioning / showing
harness!(content_op_Td, {
    let (a0, v0) = num(); let (a1, v1) = num();
    let r = run(b, "Td", vec![a0, a1]);
    r && b.ops.len() == 1 && matches!(b.ops[0], Op::MoveTextPosition { translation: t } if t.x == v0 && t.y == v1)
});
harness!(content_op_TD, {
    let (a0, v0) = num(); let (a1, v1) = num();
    let r = run(b, "TD", vec![a0, a1]);
    r && b.ops.len() == 2 && matches!(b.ops[0], Op::Leading { leading } if leading == -v1)
      && matches!(b.ops[1], Op::MoveTextPosition { translation: t } if t.x == v0 && t.y == v1)
});
harness!(content_op_Tf, {
    let (a0, v0) = num();
    let r = run(b, "Tf", vec![nm("F1"), a0]);
    r && b.ops.len() == 1 && matches!(&b.ops[0], Op::TextFont { name, size } if is_name(name, "F1") && *size == v0)
});
harness!(content_op_Tj, {
    let r = run(b, "Tj", vec![st(b"ab")]);
    r && b.ops.len() == 1 && matches!(&b.ops[0], Op::TextDraw { text } if is_str(text, b"ab"))
});
harness!(content_op_quote, {
    let r = run(b, "'", vec![st(b"ab")]);
    r && b.ops.len() == 2 && matches!(b.ops[0], Op::TextNewline) && matches!(&b.ops[1], Op::TextDraw { text } if is_str(text, b"ab"))
});
harness!(content_op_dquote, {
    let (a0, v0) = num(); let (a1, v1) = num();
    let r = run(b, "\"", vec![a0, a1, st(b"ab")]);
    r && b.ops.len() == 4 && matches!(b.ops[0], Op::WordSpacing { word_space } if word_space == v0)
      && matches!(b.ops[1], Op::CharSpacing { char_space } if char_space == v1)
      && matches!(b.ops[2], Op::TextNewline) && matches!(&b.ops[3], Op::TextDraw { text } if is_str(text, b"ab"))
});
harness!(content_op_TJ, {
    let (a0, v0) = num();
    let r = run(b, "TJ", vec![Primitive::Array(vec![st(b"a"), a0, st(b"b")])]);
    r && b.ops.len() == 1 && matches!(&b.ops[0], Op::TextDrawAdjusted { array } if array.len() == 3
        && matches!(&array[0], TextDrawAdjusted::Text(t) if is_str(t, b"a"))
        && matches!(array[1], TextDrawAdjusted::Spacing(s) if s == v0)
        && matches!(&array[2], TextDrawAdjusted::Text(t) if is_str(t, b"b")))
});
/// a missing operand is an error, never a panic, and produces no operation
harness!(content_op_missing_operand, {
    let which: u8 = kani::any();
    kani::assume(which < 6);
    let (a0, _) = num();
    let (op, args) = match which {
        0 => ("m", vec![a0]), 1 => ("c", vec![a0]), 2 => ("Tf", vec![nm("F")]), 3 => ("re", vec![a0]), 4 => ("w", vec![]), _ => ("Tj", vec![]) };
    let r = run(b, op, args);
    !r && b.ops.len() == 0
});
