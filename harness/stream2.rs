//@ target: pdf/src/object/stream.rs
// C05: a chain of filters is applied in stream order (the first filter of /Filter is undone first).
// Data = ASCIIHex( RunLength(payload) ) with filters [ASCIIHexDecode, RunLengthDecode]; payload byte and repeat count symbolic.
use super::*;

fn nofmt(_a: std::fmt::Arguments<'_>) -> String { String::new() }
const HEX: &[u8; 16] = b"0123456789abcdef";
fn no_dct(_d: &[u8], _p: &crate::enc::DCTDecodeParams) -> Result<Vec<u8>> { Err(PdfError::EOF) }
fn no_fax(_d: &[u8], _p: &crate::enc::CCITTFaxDecodeParams) -> Result<Vec<u8>> { Err(PdfError::EOF) }
fn no_lzw(_d: &[u8], _p: &crate::enc::LZWFlateParams) -> Result<Vec<u8>> { Err(PdfError::EOF) }
fn no_flate(_d: &[u8], _p: &crate::enc::LZWFlateParams) -> Result<Vec<u8>> { Err(PdfError::EOF) }

#[kani::proof]
#[kani::stub(std::fmt::format, nofmt)]
#[kani::stub(crate::enc::dct_decode, no_dct)]
#[kani::stub(crate::enc::fax_decode, no_fax)]
#[kani::stub(crate::enc::lzw_decode, no_lzw)]
#[kani::stub(crate::enc::flate_decode, no_flate)]
fn stream2_chain_hex_then_runlength() {
    let b: u8 = kani::any();
    let len: u8 = kani::any();
    kani::assume(len >= 253);                    // repeat run of 257-len = 2..=4 copies
    // RunLength encoding: [len, b, 128]; ASCIIHex encoding of those three bytes + '>'
    let rl = [len, b, 128u8];
    let mut data = [0u8; 7];
    let mut i = 0;
    while i < 3 { data[2 * i] = HEX[(rl[i] >> 4) as usize]; data[2 * i + 1] = HEX[(rl[i] & 15) as usize]; i += 1; }
    data[6] = b'>';
    let s: Stream<()> = Stream::from_compressed((), data.to_vec(), vec![StreamFilter::ASCIIHexDecode, StreamFilter::RunLengthDecode]);
    let r = s.data(&NoResolve);
    let n = 257 - len as usize;
    let ok = match &r { Ok(d) => d.len() == n && { let q: usize = kani::any(); q >= n || d[q] == b }, Err(_) => false };
    std::mem::forget(r); std::mem::forget(s);
    assert!(ok);
}
