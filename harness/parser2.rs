//@ target: pdf/src/parser/mod.rs
// Object parser, one token class at a time: the leading byte of the buffer is concrete, so only one arm of
// _parse_with_lexer_ctx is feasible; the recursive arms are reach-guarded (obligations.py).
use super::*;
use crate::object::NoResolve;

fn nofmt(_a: std::fmt::Arguments<'_>) -> String { String::new() }
fn nolossy(_v: &[u8]) -> std::borrow::Cow<'_, str> { std::borrow::Cow::Borrowed("") }
/// UTF-8 validation restricted to ASCII (every harness below assumes ASCII input): symbolic run_utf8_validation exhausts memory
fn ascii_utf8(v: &[u8]) -> std::result::Result<&str, std::str::Utf8Error> {
    let mut i = 0;
    while i < v.len() { if v[i] >= 0x80 { return std::str::from_utf8(&[0xffu8][..]).map(|_| ""); } i += 1; }
    Ok(unsafe { std::str::from_utf8_unchecked(v) })
}
fn hexd(c: u8) -> Option<u8> {
    match c { b'0'..=b'9' => Some(c - b'0'), b'a'..=b'f' => Some(c - b'a' + 10), b'A'..=b'F' => Some(c - b'A' + 10), _ => None }
}
fn ws(b: u8) -> bool { matches!(b, 0 | 9 | 10 | 12 | 13 | 32) }
fn delim(b: u8) -> bool { matches!(b, b'(' | b')' | b'<' | b'>' | b'[' | b']' | b'{' | b'}' | b'/' | b'%') }

/// names: "/" + 3 symbolic ASCII bytes + " " : the value is the #xx-decoded run of regular characters, the cursor rests after it
#[kani::proof]
#[kani::stub(std::fmt::format, nofmt)]
#[kani::stub(std::string::String::from_utf8_lossy, nolossy)]
#[kani::stub(std::str::from_utf8, ascii_utf8)]
fn parser2_name3() {
    let s: [u8; 3] = kani::any();
    kani::assume(s[0] < 0x80 && s[1] < 0x80 && s[2] < 0x80);
    let buf = [b'/', s[0], s[1], s[2], b' '];
    // reference: token = maximal run of regular characters; decode #xx
    let mut k = 0; while k < 3 && !ws(s[k]) && !delim(s[k]) { k += 1; }
    let mut want = [0u8; 3]; let mut n = 0; let mut i = 0; let mut bad = false;
    while i < k {
        if s[i] == b'#' {
            if i + 2 >= k { bad = true; break; }      // '#' needs two more characters inside the token
            match (hexd(s[i + 1]), hexd(s[i + 2])) { (Some(h), Some(l)) => { want[n] = (h << 4) | l; n += 1; i += 3; } _ => { bad = true; break; } }
        } else { want[n] = s[i]; n += 1; i += 1; }
    }
    let mut lx = Lexer::new(&buf);
    let r = _parse_with_lexer_ctx(&mut lx, &NoResolve, None, ParseFlags::ANY, 1);
    if !bad {
        // a decoded byte >= 0x80 alone is not valid UTF-8: the crate stores names as strings, so that case may be an error
        let mut high = false; let mut j = 0; while j < n { if want[j] >= 0x80 { high = true; } j += 1; }
        if !high {
            let ok = match &r { Ok(Primitive::Name(nm)) => { let b = nm.as_bytes(); b.len() == n && { let q: usize = kani::any(); q >= n || b[q] == want[q] } }, _ => false };
            assert!(ok);
            assert!(lx.get_pos() == 1 + k);
        }
    }
    std::mem::forget(r);
}

/// integer followed by one arbitrary white-space or delimiter byte: the value is the integer, the cursor rests right after it
/// (the n g R look-ahead must roll back). Leading token concrete ("42"), the following byte symbolic.
#[kani::proof]
#[kani::stub(std::fmt::format, nofmt)]
#[kani::stub(std::string::String::from_utf8_lossy, nolossy)]
#[kani::stub(std::str::from_utf8, ascii_utf8)]
fn parser2_int_then_sep() {
    let s0: u8 = kani::any();
    kani::assume(ws(s0) || delim(s0));
    let buf = [b'4', b'2', s0];
    let mut lx = Lexer::new(&buf);
    let r = _parse_with_lexer_ctx(&mut lx, &NoResolve, None, ParseFlags::ANY, 1);
    let ok = matches!(&r, Ok(Primitive::Integer(42)));
    std::mem::forget(r);
    assert!(ok);
    assert!(lx.get_pos() == 2);
}
/// the same integer at the very end of the buffer (an object-stream member without trailing white-space, C11)
#[kani::proof]
#[kani::stub(std::fmt::format, nofmt)]
#[kani::stub(std::string::String::from_utf8_lossy, nolossy)]
#[kani::stub(std::str::from_utf8, ascii_utf8)]
fn parser2_int_at_end() {
    let d: u8 = kani::any();
    kani::assume(d >= b'0' && d <= b'9');
    let buf = [b'4', d];
    let mut lx = Lexer::new(&buf);
    let r = _parse_with_lexer_ctx(&mut lx, &NoResolve, None, ParseFlags::ANY, 1);
    let ok = matches!(&r, Ok(Primitive::Integer(v)) if *v == 40 + (d - b'0') as i32);
    std::mem::forget(r);
    assert!(ok);
    assert!(lx.get_pos() == 2);
}
