//@ target: pdf/src/font.rs
// C01: UTF-16BE text decoding (ToUnicode targets, text strings) on arbitrary bytes: a string or an error, never a panic;
// well-formed BMP input decodes to the code units it contains.
use super::*;
fn nofmt(_a: std::fmt::Arguments<'_>) -> String { String::new() }

fn utf16_case<const L: usize>() {
    let d: [u8; L] = kani::any();
    let r = utf16be_to_string(&d);
    if let Ok(s) = &r {
        // every pair is a BMP scalar (not a surrogate) => exactly L/2 characters with those code points
        let mut all_bmp = true; let mut i = 0;
        while i + 1 < L { let u = u16::from_be_bytes([d[i], d[i + 1]]); if u >= 0xD800 && u <= 0xDFFF { all_bmp = false; } i += 2; }
        if all_bmp {
            let mut it = s.as_str().chars(); let mut i = 0;
            while i + 1 < L { let u = u16::from_be_bytes([d[i], d[i + 1]]); assert!(it.next() == char::from_u32(u as u32)); i += 2; }
            assert!(it.next().is_none());
        }
    }
    std::mem::forget(r);
    let l = utf16be_to_string_lossy(&d);
    assert!(l.chars().count() <= L / 2);
    std::mem::forget(l);
}
#[kani::proof]
#[kani::stub(std::fmt::format, nofmt)]
fn font3_utf16_l2() { utf16_case::<2>() }
#[kani::proof]
#[kani::stub(std::fmt::format, nofmt)]
fn font3_utf16_l3() { utf16_case::<3>() }
#[kani::proof]
#[kani::stub(std::fmt::format, nofmt)]
fn font3_utf16_l4() { utf16_case::<4>() }
