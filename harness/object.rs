//@ target: pdf/src/object/mod.rs
// C18 (Option reader only): an optional entry that refers to a free or never-defined object reads as None in strict and in
// tolerant mode, for the scalar readers. The resolver here is a stand-in that produces exactly the error values the real
// Storage::resolve_ref produces for such references (PdfError::FreeObject / PdfError::NullRef, unwrapped) -- the real
// StorageResolver itself could not be executed symbolically (DESIGN §5 C18).
use super::*;
use std::ops::Range;

fn nofmt(_a: std::fmt::Arguments<'_>) -> String { String::new() }

struct Dangling { free: bool, tolerant: bool }
impl Resolve for Dangling {
    fn resolve_flags(&self, r: PlainRef, _: ParseFlags, _: usize) -> Result<Primitive> {
        if self.free { Err(PdfError::FreeObject { obj_nr: r.id }) } else { Err(PdfError::NullRef { obj_nr: r.id }) }
    }
    fn get<T: Object + DataSize>(&self, r: Ref<T>) -> Result<RcRef<T>> {
        // StorageResolver::get hands a failed load out as Shared { source: Arc<the error of resolve> }
        let id = r.get_inner().id;
        let e = if self.free { PdfError::FreeObject { obj_nr: id } } else { PdfError::NullRef { obj_nr: id } };
        Err(PdfError::Shared { source: Arc::new(e) })
    }
    fn options(&self) -> &ParseOptions {
        static S: ParseOptions = ParseOptions::strict(); static T: ParseOptions = ParseOptions::tolerant();
        if self.tolerant { &T } else { &S }
    }
    fn stream_data(&self, _: PlainRef, _: Range<usize>) -> Result<Arc<[u8]>> { Err(PdfError::Reference) }
    fn get_data_or_decode(&self, _: PlainRef, _: Range<usize>, _: &[StreamFilter]) -> Result<Arc<[u8]>> { Err(PdfError::Reference) }
}
fn opt_case<T: Object>() {
    let r = Dangling { free: kani::any(), tolerant: kani::any() };
    let id = PlainRef { id: kani::any(), gen: kani::any() };
    let res = <Option<T> as Object>::from_primitive(Primitive::Reference(id), &r);
    let ok = matches!(res, Ok(None));
    std::mem::forget(res);
    assert!(ok);
}
#[kani::proof]
#[kani::stub(std::fmt::format, nofmt)]
fn object_opt_i32_dangling() { opt_case::<i32>() }
#[kani::proof]
#[kani::stub(std::fmt::format, nofmt)]
fn object_opt_name_dangling() { opt_case::<Name>() }
#[kani::proof]
#[kani::stub(std::fmt::format, nofmt)]
fn object_opt_bool_dangling() { opt_case::<bool>() }
#[kani::proof]
#[kani::stub(std::fmt::format, nofmt)]
fn object_opt_f32_dangling() { opt_case::<f32>() }
#[kani::proof]
#[kani::stub(std::fmt::format, nofmt)]
fn object_opt_rect_dangling() { opt_case::<crate::object::types::Rectangle>() }
#[kani::proof]
#[kani::stub(std::fmt::format, nofmt)]
fn object_opt_rcref_dangling() { opt_case::<RcRef<i32>>() }
#[kani::proof]
#[kani::stub(std::fmt::format, nofmt)]
fn object_opt_mayberef_dangling() { opt_case::<MaybeRef<i32>>() }

/// The other half of C18: a REQUIRED entry that refers to a missing object is an error of the containing object, and that
/// error must not be swallowed by an enclosing Option in strict mode (it is in tolerant mode, by design). The inner reader is a
/// stand-in that fails the way derived readers do for a dangling required entry: the missing-object error wrapped in
/// Try { .. } / FromPrimitive { .. } context.
struct NeedsFlags;
impl Object for NeedsFlags {
    fn from_primitive(_p: Primitive, _r: &impl Resolve) -> Result<Self> {
        let inner = PdfError::NullRef { obj_nr: 9 };
        if kani::any() {
            Err(PdfError::Try { file: "x", line: 1, column: 1, context: crate::error::Context(Vec::new()), source: Box::new(inner) })
        } else {
            Err(PdfError::FromPrimitive { typ: "FontDescriptor", field: "flags", source: Box::new(inner) })
        }
    }
}
#[kani::proof]
#[kani::stub(std::fmt::format, nofmt)]
fn object_opt_nested_required() {
    let r = Dangling { free: false, tolerant: kani::any() };
    let tolerant = r.tolerant;
    let res = <Option<NeedsFlags> as Object>::from_primitive(Primitive::Integer(1), &r);
    let ok = if tolerant { matches!(res, Ok(None)) } else { res.is_err() };
    std::mem::forget(res);
    assert!(ok);
}
