//@ target: pdf/src/backend.rs
// C02 / C17 lemma: the startxref offset is the decimal number after the LAST "startxref" keyword of the file.
use super::*;
fn nofmt(_a: std::fmt::Arguments<'_>) -> String { String::new() }
fn nolossy(_v: &[u8]) -> std::borrow::Cow<'_, str> { std::borrow::Cow::Borrowed("") }
fn ascii_utf8(v: &[u8]) -> std::result::Result<&str, std::str::Utf8Error> {
    let mut i = 0;
    while i < v.len() { if v[i] >= 0x80 { return std::str::from_utf8(&[0xffu8][..]).map(|_| ""); } i += 1; }
    Ok(unsafe { std::str::from_utf8_unchecked(v) })
}
#[kani::proof]
#[kani::stub(std::fmt::format, nofmt)]
#[kani::stub(std::string::String::from_utf8_lossy, nolossy)]
#[kani::stub(std::str::from_utf8, ascii_utf8)]
fn backend2_locate_xref_offset() {
    let d: [u8; 2] = kani::any();
    kani::assume(d[0] >= b'0' && d[0] <= b'9' && d[1] >= b'0' && d[1] <= b'9');
    let eol: u8 = kani::any();
    kani::assume(eol == b'\n' || eol == b'\r' || eol == b' ');
    let mut v: Vec<u8> = Vec::with_capacity(32);
    v.extend_from_slice(b"x startxref\n7\nstartxref");
    v.push(eol); v.push(d[0]); v.push(d[1]); v.push(eol);
    v.extend_from_slice(b"%%EOF");
    let r = v.locate_xref_offset();
    let want = ((d[0] - b'0') as usize) * 10 + (d[1] - b'0') as usize;
    let ok = matches!(&r, Ok(x) if *x == want);
    std::mem::forget(r); std::mem::forget(v);
    assert!(ok);
}
