//@ target: pdf/src/file.rs
// C18: a reference to a free object, to an object number that no section defines, or to a number beyond the table reads as
// null (None) through the Option reader -- against the REAL Storage / StorageResolver and the error shapes they produce,
// in strict and in tolerant mode.
use super::*;

fn fixed_rs() -> std::hash::RandomState { unsafe { std::mem::transmute::<[u64; 2], std::hash::RandomState>([1, 2]) } }
fn nofmt(_a: std::fmt::Arguments<'_>) -> String { String::new() }
fn nodecode(_d: &[u8], _f: &StreamFilter) -> Result<Vec<u8>> { Err(PdfError::EOF) }

/// xref table: id 0 = free, id 1 = never defined (Invalid), id 2 = the free sentinel XRefTable::new appends; ids >= 3 are beyond the table
fn storage(tolerant: bool) -> Storage<Vec<u8>, NoCache, NoCache, NoLog> {
    let mut refs = XRefTable::new(2);
    refs.set(0, XRef::Free { next_obj_nr: 0, gen_nr: 65535 });
    Storage {
        cache: NoCache, stream_cache: NoCache,
        changes: HashMap::new(),
        refs,
        decoder: None,
        options: if tolerant { ParseOptions::tolerant() } else { ParseOptions::strict() },
        backend: Vec::from(&b"%PDF-1.7\n"[..]),
        start_offset: 0,
        log: NoLog,
    }
}
fn opt_case<T: Object>(id: u64) {
    let tolerant: bool = kani::any();
    let st = storage(tolerant);
    let r = StorageResolver::new(&st);
    let res = <Option<T> as Object>::from_primitive(Primitive::Reference(PlainRef { id, gen: 0 }), &r);
    let ok = matches!(res, Ok(None));
    std::mem::forget(res); std::mem::forget(r); std::mem::forget(st);
    assert!(ok);
}
macro_rules! case {
    ($name:ident, $t:ty, $id:expr) => {
        #[kani::proof]
        #[kani::stub(std::fmt::format, nofmt)]
        #[kani::stub(std::hash::RandomState::new, fixed_rs)]
        #[kani::stub(crate::enc::decode, nodecode)]
        fn $name() { opt_case::<$t>($id) }
    };
}
case!(file_opt_i32_free, i32, 0);
case!(file_opt_i32_undefined, i32, 1);
case!(file_opt_i32_beyond, i32, 7);
case!(file_opt_name_beyond, crate::primitive::Name, 7);
case!(file_opt_rcref_beyond, RcRef<i32>, 7);
case!(file_opt_rcref_free, RcRef<i32>, 0);
case!(file_opt_maybe_undefined, MaybeRef<i32>, 1);
