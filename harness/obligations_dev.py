ob("stream2_chain_hex_then_runlength", ["X90"], "stream2.rs", unwind=10, cuts=X1_ALL + ["object::stream::Stream<()>", "object::stream::StreamInfo<()>"],
   stubs=[FMT_STUB], timeout=1500, mem_gb=16, functions=["object::stream::Stream::data", "enc::decode"], bound="probe")
ob("xref2_write_then_read", ["X89"], "xref2.rs", unwind=10, cuts=X1_ALL + ["object::stream::Stream<xref::XRefInfo>", "object::stream::StreamInfo<xref::XRefInfo>", "xref::XRefInfo", "xref::XRefTable"],
   stubs=[FMT_STUB], timeout=1500, mem_gb=16, functions=["xref::XRefTable::write_stream", "xref::byte_len", "parser::parse_xref::parse_xref_section_from_stream"], bound="probe")
