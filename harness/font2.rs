//@ target: pdf/src/font.rs
// C19 / C14: interpretation of a composite font's /W array by Font::widths on a hand-built CIDFont:
// groups `c [w1 .. wn]` and `c_first c_last w`, symbolic widths and default width, concrete small codes.
use super::*;

fn nofmt(_a: std::fmt::Arguments<'_>) -> String { String::new() }
fn fixed_rs() -> std::hash::RandomState { unsafe { std::mem::transmute::<[u64; 2], std::hash::RandomState>([1, 2]) } }

fn cid_font(w: Vec<Primitive>, dw: f32) -> Font {
    let fd = FontDescriptor {
        font_name: "F".into(), font_family: None, font_stretch: None, font_weight: None, flags: 0,
        font_bbox: Rectangle { left: 0., bottom: 0., right: 1., top: 1. }, italic_angle: 0., ascent: None, descent: None,
        leading: 0., cap_height: None, xheight: 0., stem_v: 0., stem_h: 0., avg_width: 0., max_width: 0., missing_width: 0.,
        font_file: None, font_file2: None, font_file3: None, char_set: None };
    Font { subtype: FontType::CIDFontType2, name: None,
           data: FontData::CIDFontType2(CIDFont { system_info: Dictionary::new(), font_descriptor: fd, default_width: dw, widths: w,
                                                   cid_to_gid_map: None, _other: Dictionary::new() }),
           encoding: None, to_unicode: None, _other: Dictionary::new() }
}
fn wnum() -> (Primitive, f32) { let v: u16 = kani::any(); (Primitive::Integer(v as i32), v as f32) }

/// /W [ 2 [a b]  6 7 c ] with /DW d: codes 2,3 -> a,b; 6,7 -> c; everything else -> d. Both group orders.
fn w_case(swap: bool) {
    let (pa, a) = wnum(); let (pb, b) = wnum(); let (pc, c) = wnum();
    let dw = kani::any::<u16>() as f32;
    let g1 = vec![Primitive::Integer(2), Primitive::Array(vec![pa, pb])];
    let g2 = vec![Primitive::Integer(6), Primitive::Integer(7), pc];
    let mut w = Vec::new();
    if swap { w.extend(g2); w.extend(g1); } else { w.extend(g1); w.extend(g2); }
    let font = cid_font(w, dw);
    let r = font.widths(&NoResolve);
    let q: usize = kani::any();
    kani::assume(q <= 10);
    let ok = match &r {
        Ok(Some(t)) => { let got = t.get(q); let want = match q { 2 => a, 3 => b, 6 | 7 => c, _ => dw }; got == want }
        _ => false,
    };
    std::mem::forget(r); std::mem::forget(font);
    assert!(ok);
}
#[kani::proof]
#[kani::stub(std::fmt::format, nofmt)]
#[kani::stub(std::hash::RandomState::new, fixed_rs)]
fn font2_w_array_ascending() { w_case(false) }
#[kani::proof]
#[kani::stub(std::fmt::format, nofmt)]
#[kani::stub(std::hash::RandomState::new, fixed_rs)]
fn font2_w_array_descending() { w_case(true) }
