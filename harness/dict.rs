//@ target: pdf/src/primitive.rs
// feasibility probe: Dictionary (IndexMap) operations with concrete keys and symbolic values
use super::*;
fn nofmt(_a: std::fmt::Arguments<'_>) -> String { String::new() }
fn fixed_rs() -> std::hash::RandomState { unsafe { std::mem::transmute::<[u64; 2], std::hash::RandomState>([1, 2]) } }
#[kani::proof]
#[kani::stub(std::fmt::format, nofmt)]
#[kani::stub(std::hash::RandomState::new, fixed_rs)]
fn dict_insert_get() {
    let x: i32 = kani::any();
    let mut d = Dictionary::new();
    d.insert("A", Primitive::Integer(x));
    let ok = matches!(d.get("A"), Some(Primitive::Integer(v)) if *v == x);
    assert!(ok);
    assert!(d.get("B").is_none());
    std::mem::forget(d);
}

use crate::enc::LZWFlateParams;
use crate::object::{NoResolve, NoUpdate, Object, ObjectWrite};
/// C15 probe: derived writer then derived reader on the smallest model
#[kani::proof]
#[kani::stub(std::fmt::format, nofmt)]
#[kani::stub(std::hash::RandomState::new, fixed_rs)]
fn dict_lzwparams_roundtrip() {
    let p = LZWFlateParams { predictor: kani::any(), n_components: kani::any(), bits_per_component: kani::any(), columns: kani::any(), early_change: kani::any() };
    let prim = p.to_primitive(&mut NoUpdate).unwrap();
    let q = LZWFlateParams::from_primitive(prim, &NoResolve);
    let ok = match &q { Ok(q) => q.predictor == p.predictor && q.n_components == p.n_components && q.bits_per_component == p.bits_per_component && q.columns == p.columns && q.early_change == p.early_change, Err(_) => false };
    std::mem::forget(q);
    assert!(ok);
}
/// reader alone: a dictionary with /Predictor and /Columns only -> defaults for the rest
#[kani::proof]
#[kani::stub(std::fmt::format, nofmt)]
#[kani::stub(std::hash::RandomState::new, fixed_rs)]
fn dict_lzwparams_read_defaults() {
    let a: i32 = kani::any(); let c: i32 = kani::any();
    let mut d = Dictionary::new();
    d.insert("Predictor", Primitive::Integer(a));
    d.insert("Columns", Primitive::Integer(c));
    let q = LZWFlateParams::from_primitive(Primitive::Dictionary(d), &NoResolve);
    let ok = match &q { Ok(q) => q.predictor == a && q.columns == c && q.n_components == 1 && q.bits_per_component == 8 && q.early_change == 1, Err(_) => false };
    std::mem::forget(q);
    assert!(ok);
}
