//@ target: pdf/src/parser/mod.rs
// Parser-level harnesses: one level of `_parse_with_lexer_ctx` (the recursion through `parse_with_lexer_ctx` and
// `parse_dictionary_object` is reach-guarded, see obligations.py), i.e. every *scalar* object spelling.
use super::*;
use crate::object::NoResolve;

fn nofmt(_a: std::fmt::Arguments<'_>) -> String { String::new() }
fn nolossy(_v: &[u8]) -> std::borrow::Cow<'_, str> { std::borrow::Cow::Borrowed("") }

fn parse1<const L: usize>() {
    let buf: [u8; L] = kani::any();
    let mut lx = Lexer::new(&buf);
    let r = _parse_with_lexer_ctx(&mut lx, &NoResolve, None, ParseFlags::ANY, 1);
    assert!(lx.get_pos() <= L);
    std::mem::forget(r);
}
#[kani::proof]
#[kani::stub(std::fmt::format, nofmt)]
#[kani::stub(std::string::String::from_utf8_lossy, nolossy)]
fn parser_scalar_total_l1() { parse1::<1>() }
#[kani::proof]
#[kani::stub(std::fmt::format, nofmt)]
#[kani::stub(std::string::String::from_utf8_lossy, nolossy)]
fn parser_scalar_total_l2() { parse1::<2>() }
