//@ target: pdf/src/object/stream.rs
// C11 (member slicing of an object stream) / C14 (offset arithmetic): for every /First, every offset table and every index the
// slice of member i is [first+off_i, first+off_{i+1}) -- the last member runs to the end of the data -- an index beyond N is
// ObjStmOutOfBounds, and nothing panics.
use super::*;

fn nofmt(_a: std::fmt::Arguments<'_>) -> String { String::new() }
fn nodecode(_d: &[u8], _f: &StreamFilter) -> Result<Vec<u8>> { Err(PdfError::EOF) }

fn objstm(first: usize, offsets: Vec<usize>, data: &[u8]) -> ObjectStream {
    let n = offsets.len();
    ObjectStream { offsets, _id: 0, inner: Stream::new(ObjStmInfo { num_objects: n, first, extends: None }, data.to_vec()) }
}
fn slice_case(n: usize, wellformed: bool) {
    let offs: [usize; 3] = kani::any();
    let first: usize = kani::any();
    let data = [0u8; 8];
    if wellformed {
        // offsets and /First as they come out of a file: /First is a 32-bit PDF integer, offsets are increasing and inside the data
        kani::assume(first <= 8 && offs[0] <= offs[1] && offs[1] <= offs[2] && offs[2] <= 8 && first + offs[2] <= 8);
    }
    let os = objstm(first, offs[..n].to_vec(), &data);
    let index: usize = kani::any();
    let r = os.get_object_slice(index, &NoResolve);
    let ok = match &r {
        Ok((d, range)) => index < n && d.len() == 8
            && (!wellformed || (range.start == first + offs[index] && range.end == if index + 1 == n { 8 } else { first + offs[index + 1] })),
        Err(_) => index >= n || !wellformed,
    };
    std::mem::forget(r); std::mem::forget(os);
    assert!(ok);
}
#[kani::proof]
#[kani::stub(std::fmt::format, nofmt)]
#[kani::stub(crate::enc::decode, nodecode)]
fn stream_objstm_slice_n1() { slice_case(1, true) }
#[kani::proof]
#[kani::stub(std::fmt::format, nofmt)]
#[kani::stub(crate::enc::decode, nodecode)]
fn stream_objstm_slice_n2() { slice_case(2, true) }
#[kani::proof]
#[kani::stub(std::fmt::format, nofmt)]
#[kani::stub(crate::enc::decode, nodecode)]
fn stream_objstm_slice_n3() { slice_case(3, true) }
/// hostile header: arbitrary usize offsets and /First (offsets are parsed with usize::from_str): error or value, never a panic
#[kani::proof]
#[kani::stub(std::fmt::format, nofmt)]
#[kani::stub(crate::enc::decode, nodecode)]
fn stream_objstm_slice_hostile() { slice_case(2, false) }
