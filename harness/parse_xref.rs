//@ target: pdf/src/parser/parse_xref.rs
// C02 (xref-stream entry decoding), C01/C14 (size arithmetic and slicing never panic)
use super::*;

fn nofmt(_a: std::fmt::Arguments<'_>) -> String { String::new() }

/// big-endian value of `w` bytes (w <= 8)
fn be(data: &[u8], off: usize, w: usize) -> u64 {
    let mut v = 0u64; let mut i = 0;
    while i < w { v = (v << 8) | data[off + i] as u64; i += 1; }
    v
}

#[kani::proof]
#[kani::stub(std::fmt::format, nofmt)]
fn pxref_read_u64() {
    let buf: [u8; 9] = kani::any();
    let n: usize = kani::any();
    kani::assume(n <= 9);
    let width: usize = kani::any();
    let mut data: &[u8] = &buf[..n];
    let r = read_u64_from_stream(width, &mut data);
    let ok = match &r {
        Ok(v) => width <= 8 && width <= n && *v == be(&buf, 0, width) && data.len() == n - width,
        Err(_) => width > 8 || width > n,
    };
    std::mem::forget(r);
    assert!(ok);
}

/// one xref-stream subsection of up to 2 entries with field widths w = [w0, w1, w2], w0 in 0..=1, w1, w2 in 0..=2:
/// type 0 / 1 / 2 -> Free / Raw / Stream with the fields in order, missing type field defaults to 1, unknown type = error
fn section_case(w0: usize, w1: usize, w2: usize, n: usize) {
    let buf: [u8; 10] = kani::any();
    let total = n * (w0 + w1 + w2);
    let mut data: &[u8] = &buf[..];
    let first: u32 = kani::any();
    let r = parse_xref_section_from_stream(first, n, &[w0, w1, w2], &mut data, &NoResolve);
    let mut bad_type = false;
    let mut i = 0;
    while i < n { if w0 > 0 && buf[i * (w0 + w1 + w2)] > 2 { bad_type = true; } i += 1; }
    let ok = match &r {
        Ok(s) => {
            let mut ok = s.first_id == first && s.entries.len() == n && data.len() == 10 - total;
            let mut i = 0;
            while i < n {
                let off = i * (w0 + w1 + w2);
                let ty = if w0 == 0 { 1 } else { be(&buf, off, w0) };
                let f1 = be(&buf, off + w0, w1);
                let f2 = be(&buf, off + w0 + w1, w2);
                ok = ok && match s.entries[i] {
                    XRef::Free { next_obj_nr, gen_nr } => ty == 0 && next_obj_nr == f1 && gen_nr == f2,
                    XRef::Raw { pos, gen_nr } => ty == 1 && pos as u64 == f1 && gen_nr == f2,
                    XRef::Stream { stream_id, index } => ty == 2 && stream_id == f1 && index as u64 == f2,
                    _ => false,
                };
                i += 1;
            }
            ok
        }
        Err(_) => bad_type,
    };
    std::mem::forget(r);
    // a type field other than 0, 1, 2 is outside what the property specifies (ISO 32000 wants it read as a null reference,
    // the crate reports an error): only the absence of a panic is required there
    assert!(ok || bad_type);
}
#[kani::proof]
#[kani::stub(std::fmt::format, nofmt)]
fn pxref_section_w111_n2() { section_case(1, 1, 1, 2) }
#[kani::proof]
#[kani::stub(std::fmt::format, nofmt)]
fn pxref_section_w121_n2() { section_case(1, 2, 1, 2) }
#[kani::proof]
#[kani::stub(std::fmt::format, nofmt)]
fn pxref_section_w022_n2() { section_case(0, 2, 2, 2) }
#[kani::proof]
#[kani::stub(std::fmt::format, nofmt)]
fn pxref_section_w120_n1() { section_case(1, 2, 0, 1) }

/// size arithmetic: for extreme entry counts and EVERY width triple a typed xref-stream dictionary can carry (widths come
/// from 32-bit PDF integers), the call returns an error or a section -- never a panic. (The count is concrete per call:
/// a symbolic 64-bit count x symbolic width product is beyond the SAT back end; the counts tried are 0, 1, 5 and 2^31-1.)
fn sizes_case(n: usize, strict: bool) {
    let buf: [u8; 4] = kani::any();
    let w: [u32; 3] = kani::any();
    kani::assume(w[0] <= i32::MAX as u32 && w[1] <= i32::MAX as u32 && w[2] <= i32::MAX as u32);
    // all-zero widths with a huge count is the separate obligation pxref_section_zero_width
    kani::assume(w[0] as u64 + w[1] as u64 + w[2] as u64 > 0);
    let mut data: &[u8] = &buf[..];
    let r = if strict {
        parse_xref_section_from_stream(0, n, &[w[0] as usize, w[1] as usize, w[2] as usize], &mut data, &NoResolve)
    } else {
        parse_xref_section_from_stream(0, n, &[w[0] as usize, w[1] as usize, w[2] as usize], &mut data, &TolerantNoResolve)
    };
    if let Ok(s) = &r { assert!(s.entries.len() <= 4); }
    std::mem::forget(r);
}
#[kani::proof]
#[kani::stub(std::fmt::format, nofmt)]
fn pxref_section_sizes_strict() { sizes_case(0, true); sizes_case(1, true); sizes_case(5, true); sizes_case(i32::MAX as usize, true); }
#[kani::proof]
#[kani::stub(std::fmt::format, nofmt)]
fn pxref_section_sizes_tolerant() { sizes_case(1, false); sizes_case(5, false); sizes_case(i32::MAX as usize, false); }

/// widths [0,0,0]: every entry is 0 bytes long, so `count` entries are materialised from no data at all.
/// Resources must stay proportional to the input: the entry loop may not run more often than there are data bytes + 1.
#[kani::proof]
#[kani::stub(std::fmt::format, nofmt)]
fn pxref_section_zero_width() {
    let buf: [u8; 2] = kani::any();
    let n: u32 = kani::any();
    kani::assume(n <= i32::MAX as u32);
    let mut data: &[u8] = &buf[..];
    let r = parse_xref_section_from_stream(0, n as usize, &[0, 0, 0], &mut data, &NoResolve);
    if let Ok(s) = &r { assert!(s.entries.len() <= 3); }
    std::mem::forget(r);
}

/// a resolver that only differs from NoResolve in its parse options (tolerant)
struct TolerantNoResolve;
impl Resolve for TolerantNoResolve {
    fn resolve_flags(&self, _: PlainRef, _: ParseFlags, _: usize) -> Result<Primitive> { Err(PdfError::Reference) }
    fn get<T: Object + datasize::DataSize>(&self, _r: Ref<T>) -> Result<RcRef<T>> { Err(PdfError::Reference) }
    fn options(&self) -> &ParseOptions { static T: ParseOptions = ParseOptions::tolerant(); &T }
    fn stream_data(&self, _: PlainRef, _: std::ops::Range<usize>) -> Result<std::sync::Arc<[u8]>> { Err(PdfError::Reference) }
    fn get_data_or_decode(&self, _: PlainRef, _: std::ops::Range<usize>, _: &[crate::enc::StreamFilter]) -> Result<std::sync::Arc<[u8]>> { Err(PdfError::Reference) }
}
