//@ target: pdf/src/crypt.rs
// C06: per-object key material (Algorithm 1 / 1.A), exemptions, cipher key lengths, short-data behaviour.
// Hash and cipher cores are not symbolically tractable: md5::compute and Rc4::encrypt are replaced by *recording* stubs
// (cut X7) and what is proved is WHAT IS FED TO THEM, for every key, key size, object number and generation.
// Natively (replay of a counterexample) the same inputs are checked against a reference built on the real md5 crate
// and a textbook RC4.
use super::*;

fn nofmt(_a: std::fmt::Arguments<'_>) -> String { String::new() }

static mut MD5_CALLS: usize = 0;
static mut MD5_LEN: usize = 0;
static mut MD5_IN: [u8; 48] = [0; 48];
static mut RC4_CALLS: usize = 0;
static mut RC4_KEYLEN: usize = 0;
static mut RC4_KEY: [u8; 32] = [0; 32];
const DIGEST: [u8; 16] = [0xa0, 0xa1, 0xa2, 0xa3, 0xa4, 0xa5, 0xa6, 0xa7, 0xa8, 0xa9, 0xaa, 0xab, 0xac, 0xad, 0xae, 0xaf];

fn md5_spy<T: AsRef<[u8]>>(data: T) -> md5::Digest {
    let d = data.as_ref();
    unsafe {
        MD5_CALLS += 1;
        MD5_LEN = d.len();
        let mut i = 0;
        while i < d.len() && i < 48 { MD5_IN[i] = d[i]; i += 1; }
    }
    md5::Digest(DIGEST)
}
fn rc4_spy(key: &[u8], _data: &mut [u8]) {
    unsafe {
        RC4_CALLS += 1;
        RC4_KEYLEN = key.len();
        let mut i = 0;
        while i < key.len() && i < 32 { RC4_KEY[i] = key[i]; i += 1; }
    }
}

/// textbook RC4 (used only by the native replay oracle)
fn rc4_ref(key: &[u8], data: &mut [u8]) {
    let mut s = [0u8; 256];
    for i in 0..256 { s[i] = i as u8; }
    let mut j = 0u8;
    for i in 0..256 { j = j.wrapping_add(s[i]).wrapping_add(key[i % key.len()]); s.swap(i, j as usize); }
    let (mut i, mut j) = (0u8, 0u8);
    for b in data.iter_mut() {
        i = i.wrapping_add(1); j = j.wrapping_add(s[i as usize]); s.swap(i as usize, j as usize);
        *b ^= s[s[i as usize].wrapping_add(s[j as usize]) as usize];
    }
}

fn res_ok<'a>(r: Result<&'a [u8]>) -> Option<&'a [u8]> { match r { Ok(v) => Some(v), Err(e) => { std::mem::forget(e); None } } }

/// Algorithm 1 for RC4: MD5 input = file key (n = min(key_size,16) bytes) ‖ low 3 bytes of the object number ‖ low 2 bytes
/// of the generation; RC4 key = first min(n+5, 16) bytes of the digest.  All keys, key sizes 5..=16, ids, generations.
#[kani::proof]
#[kani::stub(std::fmt::format, nofmt)]
#[kani::stub(md5::compute, md5_spy)]
#[kani::stub(crate::crypt::Rc4::encrypt, rc4_spy)]
fn crypt_v2_keymaterial() {
    let key: [u8; 16] = kani::any();
    let key_size: usize = kani::any();
    kani::assume(key_size >= 5 && key_size <= 16);
    let id = PlainRef { id: kani::any(), gen: kani::any() };
    let d0: u8 = kani::any(); let d1: u8 = kani::any();
    let mut data = [d0, d1];
    let dec = Decoder::new(key.to_vec(), key_size, CryptMethod::V2, true);
    #[cfg(kani)]
    {
        let r = res_ok(dec.decrypt(id, &mut data));
        assert!(r.is_some());
        let n = key_size;
        let q: usize = kani::any();
        kani::assume(q < n);
        unsafe {
            assert!(MD5_CALLS == 1 && MD5_LEN == n + 5);
            assert!(MD5_IN[q] == key[q]);
            let idb = id.id.to_le_bytes(); let gb = id.gen.to_le_bytes();
            assert!(MD5_IN[n] == idb[0] && MD5_IN[n + 1] == idb[1] && MD5_IN[n + 2] == idb[2]);
            assert!(MD5_IN[n + 3] == gb[0] && MD5_IN[n + 4] == gb[1]);
            assert!(RC4_CALLS == 1 && RC4_KEYLEN == std::cmp::min(n + 5, 16));
            let p: usize = kani::any();
            kani::assume(p < RC4_KEYLEN);
            assert!(RC4_KEY[p] == DIGEST[p]);
        }
    }
    #[cfg(verif_replay)]
    {
        let mut want = [d0, d1];
        let n = key_size;
        let mut m = key[..n].to_vec();
        m.extend_from_slice(&id.id.to_le_bytes()[..3]); m.extend_from_slice(&id.gen.to_le_bytes()[..2]);
        let dg = md5::compute(&m);
        rc4_ref(&dg[..std::cmp::min(n + 5, 16)], &mut want);
        let r = dec.decrypt(id, &mut data).unwrap();
        assert!(r == &want[..]);
    }
    std::mem::forget(dec);
}

/// Algorithm 1 for AES-128 (AESV2): MD5 input additionally ends in "sAlT"; data shorter than one block is an error, not a panic
#[kani::proof]
#[kani::stub(std::fmt::format, nofmt)]
#[kani::stub(md5::compute, md5_spy)]
fn crypt_aesv2_keymaterial_short() {
    let key: [u8; 16] = kani::any();
    let key_size: usize = kani::any();
    kani::assume(key_size >= 5 && key_size <= 32);
    let id = PlainRef { id: kani::any(), gen: kani::any() };
    let mut data: [u8; 15] = kani::any();
    let len: usize = kani::any();
    kani::assume(len >= 1 && len <= 15);
    let mut keyv = key.to_vec();
    if key_size > 16 { keyv.resize(32, 0); }
    let dec = Decoder::new(keyv, key_size, CryptMethod::AESV2, true);
    #[cfg(kani)]
    {
        let r = res_ok(dec.decrypt(id, &mut data[..len]));
        assert!(r.is_none());
        let n = std::cmp::min(key_size, 16);
        let q: usize = kani::any();
        kani::assume(q < n);
        unsafe {
            assert!(MD5_CALLS == 1 && MD5_LEN == n + 9);
            assert!(MD5_IN[q] == key[q]);
            let idb = id.id.to_le_bytes(); let gb = id.gen.to_le_bytes();
            assert!(MD5_IN[n] == idb[0] && MD5_IN[n + 1] == idb[1] && MD5_IN[n + 2] == idb[2]);
            assert!(MD5_IN[n + 3] == gb[0] && MD5_IN[n + 4] == gb[1]);
            assert!(MD5_IN[n + 5] == b's' && MD5_IN[n + 6] == b'A' && MD5_IN[n + 7] == b'l' && MD5_IN[n + 8] == b'T');
        }
    }
    #[cfg(verif_replay)]
    {
        assert!(dec.decrypt(id, &mut data[..len]).is_err());
    }
    std::mem::forget(dec);
}

/// the cipher key has the cipher's key length: min(key_size, 16) for RC4 / AES-128, 32 for AES-256
#[kani::proof]
fn crypt_key_len() {
    let key: [u8; 32] = kani::any();
    let m: u8 = kani::any();
    kani::assume(m < 3);
    let key_size: usize = kani::any();
    let method = match m { 0 => CryptMethod::V2, 1 => CryptMethod::AESV2, _ => CryptMethod::AESV3 };
    // from_password builds: RC4/AESV2 -> key vec of max(key_size,16) bytes, key_size = Length/8 in 1..=16 (owner path bails above 16);
    // AESV3 -> key vec of 32 bytes, key_size 32
    if m == 2 { kani::assume(key_size == 32); } else { kani::assume(key_size >= 1 && key_size <= 16); }
    let dec = Decoder::new(key.to_vec(), key_size, method, true);
    let k = dec.key();
    if m == 2 { assert!(k.len() == 32); } else { assert!(k.len() == key_size); }
    let q: usize = kani::any();
    kani::assume(q < k.len());
    assert!(k[q] == key[q]);
    std::mem::forget(dec);
}

/// AES-256: data shorter than the IV is an error; a 16-byte datum (IV only) is not a panic either
#[kani::proof]
#[kani::stub(std::fmt::format, nofmt)]
fn crypt_aesv3_short() {
    let key: [u8; 32] = kani::any();
    let mut data: [u8; 15] = kani::any();
    let len: usize = kani::any();
    kani::assume(len >= 1 && len <= 15);
    let id = PlainRef { id: kani::any(), gen: kani::any() };
    let dec = Decoder::new(key.to_vec(), 32, CryptMethod::AESV3, true);
    let r = res_ok(dec.decrypt(id, &mut data[..len]));
    assert!(r.is_none());
    std::mem::forget(dec);
}

/// exemptions: strings of the /Encrypt object always, of the metadata object iff EncryptMetadata is false, are returned
/// untouched (no hash, no cipher call); empty data is returned as is; everything else goes through the cipher.
#[kani::proof]
#[kani::stub(std::fmt::format, nofmt)]
#[kani::stub(md5::compute, md5_spy)]
#[kani::stub(crate::crypt::Rc4::encrypt, rc4_spy)]
fn crypt_exemptions() {
    let key: [u8; 16] = kani::any();
    let encrypt_metadata: bool = kani::any();
    let mut dec = Decoder::new(key.to_vec(), 16, CryptMethod::V2, encrypt_metadata);
    let enc_ref = PlainRef { id: kani::any(), gen: kani::any() };
    let meta_ref = PlainRef { id: kani::any(), gen: kani::any() };
    let has_enc: bool = kani::any(); let has_meta: bool = kani::any();
    if has_enc { dec.encrypt_indirect_object = Some(enc_ref); }
    if has_meta { dec.metadata_indirect_object = Some(meta_ref); }
    let id = PlainRef { id: kani::any(), gen: kani::any() };
    let orig: [u8; 2] = kani::any();
    let mut data = orig;
    let len: usize = kani::any();
    kani::assume(len <= 2);
    let same_ref = |a: PlainRef, b: PlainRef| a.id == b.id && a.gen == b.gen;
    let exempt = (has_enc && same_ref(id, enc_ref)) || (has_meta && !encrypt_metadata && same_ref(id, meta_ref));
    #[cfg(kani)]
    {
        let r = res_ok(dec.decrypt(id, &mut data[..len]));
        assert!(matches!(r, Some(s) if s.len() == len));
        unsafe {
            if exempt || len == 0 {
                assert!(MD5_CALLS == 0 && RC4_CALLS == 0);
            } else {
                assert!(MD5_CALLS >= 1 && RC4_CALLS >= 1);
            }
        }
        // the stubs do not touch the data: an exempt string is byte-identical
        assert!(data[0] == orig[0] && data[1] == orig[1]);
    }
    #[cfg(verif_replay)]
    {
        let r = dec.decrypt(id, &mut data[..len]).unwrap().to_vec();
        if exempt || len == 0 { assert!(r[..] == orig[..len]); }
        else {
            let mut want = orig;
            let mut m = key.to_vec();
            m.extend_from_slice(&id.id.to_le_bytes()[..3]); m.extend_from_slice(&id.gen.to_le_bytes()[..2]);
            let dg = md5::compute(&m);
            rc4_ref(&dg[..16], &mut want[..len]);
            assert!(r[..] == want[..len]);
        }
    }
    std::mem::forget(dec);
}


// ---------------------------------------------------------------------------------------------------------------
// Algorithm 2 (file key from the user password, revisions 2 and 3): what is hashed, in which order, how often
// ---------------------------------------------------------------------------------------------------------------
static mut CTX_LOG: [u8; 160] = [0; 160];
static mut CTX_LEN: usize = 0;
static mut CTX_FIRST_LEN: usize = 0;
static mut CTX_COMPUTES: usize = 0;
static mut RND_CALLS: usize = 0;
static mut RND_BADLEN: bool = false;
static mut RND_LEN: usize = 0;

fn ctx_new_spy() -> md5::Context { unsafe { std::mem::zeroed() } }
fn ctx_consume_spy<T: AsRef<[u8]>>(_c: &mut md5::Context, data: T) {
    let d = data.as_ref();
    unsafe {
        if CTX_COMPUTES == 0 {
            let mut i = 0;
            while i < d.len() { if CTX_LEN < 160 { CTX_LOG[CTX_LEN] = d[i]; } CTX_LEN += 1; i += 1; }
        }
    }
}
fn ctx_compute_spy(_c: md5::Context) -> md5::Digest {
    unsafe { if CTX_COMPUTES == 0 { CTX_FIRST_LEN = CTX_LEN; } CTX_COMPUTES += 1; }
    md5::Digest(DIGEST)
}
fn md5_round_spy<T: AsRef<[u8]>>(data: T) -> md5::Digest {
    unsafe { RND_CALLS += 1; if data.as_ref().len() != RND_LEN { RND_BADLEN = true; } }
    md5::Digest(DIGEST)
}
fn fixed_rs() -> std::hash::RandomState { unsafe { std::mem::transmute::<[u64; 2], std::hash::RandomState>([1, 2]) } }

fn kdf_case(rev: u32, ks: usize) {
    let pass: [u8; 40] = kani::any();
    let plen: usize = kani::any();
    kani::assume(plen <= 40);
    let p: i32 = kani::any();
    let key_size: usize = ks;
    let o = [0x4fu8; 32];
    let id = [0x1du8; 16];
    // /U that the (stubbed) check accepts: revision 2 compares with RC4(PADDING) (RC4 stub = identity), revision 3 with the digest
    let mut u = [0u8; 32];
    if rev == 2 { u = PADDING; } else { let mut i = 0; while i < 16 { u[i] = DIGEST[i]; i += 1; } }
    let dict = CryptDict {
        o: PdfString::new(o[..].into()), u: PdfString::new(u[..].into()), r: rev, p, v: if rev == 2 { 1 } else { 2 },
        bits: (key_size * 8) as u32, crypt_filters: HashMap::new(), default_crypt_filter: None, encrypt_metadata: true,
        oe: None, ue: None, _other: Dictionary::new(),
    };
    #[cfg(verif_replay)]
    {
        // native oracle (no stubs): derive the file key with the real md5 crate as Algorithm 2 prescribes, build the /U entry
        // that belongs to it (Algorithm 4 / 5) and require that the real from_password accepts the password with that key
        let n = if plen < 32 { plen } else { 32 };
        let mut m = pass[..n].to_vec(); m.extend_from_slice(&PADDING[..32 - n]);
        m.extend_from_slice(&o); m.extend_from_slice(&p.to_le_bytes()); m.extend_from_slice(&id);
        let mut dg = md5::compute(&m).0;
        if rev >= 3 { for _ in 0..50 { dg = md5::compute(&dg[..key_size]).0; } }
        let key = &dg[..key_size];
        let mut u = [0u8; 32];
        if rev == 2 { u = PADDING; rc4_ref(key, &mut u); }
        else {
            let mut h = PADDING.to_vec(); h.extend_from_slice(&id);
            let mut d = md5::compute(&h).0;
            rc4_ref(key, &mut d);
            for i in 1u8..=19 { let k: Vec<u8> = key.iter().map(|b| b ^ i).collect(); rc4_ref(&k, &mut d); }
            u[..16].copy_from_slice(&d);
        }
        let dict = CryptDict {
            o: PdfString::new(o[..].into()), u: PdfString::new(u[..].into()), r: rev, p, v: if rev == 2 { 1 } else { 2 },
            bits: (key_size * 8) as u32, crypt_filters: HashMap::new(), default_crypt_filter: None, encrypt_metadata: true,
            oe: None, ue: None, _other: Dictionary::new(),
        };
        let r = Decoder::from_password(&dict, &id, &pass[..plen]);
        assert!(matches!(&r, Ok(d) if d.key[..key_size] == key[..]));
        return;
    }
    unsafe { RND_LEN = key_size; }
    let r = Decoder::from_password(&dict, &id, &pass[..plen]);
    let ok = match &r {
        Ok(d) => d.key_size == key_size && d.key.len() >= 16 && { let q: usize = kani::any(); q >= 16 || d.key[q] == DIGEST[q] },
        Err(_) => false,
    };
    assert!(ok);
    unsafe {
        // a) password padded or truncated to exactly 32 bytes, then O, P (little endian), the first element of /ID
        assert!(CTX_FIRST_LEN == 32 + 32 + 4 + 16);
        let q: usize = kani::any();
        kani::assume(q < 32);
        let n = if plen < 32 { plen } else { 32 };
        if q < n { assert!(CTX_LOG[q] == pass[q]); } else { assert!(CTX_LOG[q] == PADDING[q - n]); }
        assert!(CTX_LOG[32 + q] == 0x4f);
        let pb = p.to_le_bytes();
        assert!(CTX_LOG[64] == pb[0] && CTX_LOG[65] == pb[1] && CTX_LOG[66] == pb[2] && CTX_LOG[67] == pb[3]);
        assert!(CTX_LOG[68 + (q % 16)] == 0x1d);
        // h) revision 3: 50 more MD5 rounds over the first key_size bytes; revision 2: none
        if rev == 2 { assert!(RND_CALLS == 0); } else { assert!(RND_CALLS == 50 && !RND_BADLEN); }
    }
    std::mem::forget(r); std::mem::forget(dict);
}
#[kani::proof]
#[kani::stub(std::fmt::format, nofmt)]
#[kani::stub(std::hash::RandomState::new, fixed_rs)]
#[kani::stub(md5::Context::new, ctx_new_spy)]
#[kani::stub(md5::Context::consume, ctx_consume_spy)]
#[kani::stub(md5::Context::compute, ctx_compute_spy)]
#[kani::stub(md5::compute, md5_round_spy)]
#[kani::stub(crate::crypt::Rc4::encrypt, rc4_spy)]
fn crypt_kdf_user_rev2() { kdf_case(2, 5) }
#[kani::proof]
#[kani::stub(std::fmt::format, nofmt)]
#[kani::stub(std::hash::RandomState::new, fixed_rs)]
#[kani::stub(md5::Context::new, ctx_new_spy)]
#[kani::stub(md5::Context::consume, ctx_consume_spy)]
#[kani::stub(md5::Context::compute, ctx_compute_spy)]
#[kani::stub(md5::compute, md5_round_spy)]
#[kani::stub(crate::crypt::Rc4::encrypt, rc4_spy)]
fn crypt_kdf_user_rev3() { kdf_case(3, 16) }
/// /Length 256 with revision 3 (a key longer than the 16-byte digest): the extra rounds hash min(key_size, 16) bytes -- no panic
#[kani::proof]
#[kani::stub(std::fmt::format, nofmt)]
#[kani::stub(std::hash::RandomState::new, fixed_rs)]
#[kani::stub(md5::Context::new, ctx_new_spy)]
#[kani::stub(md5::Context::consume, ctx_consume_spy)]
#[kani::stub(md5::Context::compute, ctx_compute_spy)]
#[kani::stub(md5::compute, md5_round_spy)]
#[kani::stub(crate::crypt::Rc4::encrypt, rc4_spy)]
fn crypt_kdf_user_rev3_long_key() {
    let pass: [u8; 4] = kani::any();
    let o = [0x4fu8; 32]; let id = [0x1du8; 16];
    let mut u = [0u8; 32]; let mut i = 0; while i < 16 { u[i] = DIGEST[i]; i += 1; }
    let dict = CryptDict {
        o: PdfString::new(o[..].into()), u: PdfString::new(u[..].into()), r: 3, p: -4, v: 2,
        bits: 256, crypt_filters: HashMap::new(), default_crypt_filter: None, encrypt_metadata: true,
        oe: None, ue: None, _other: Dictionary::new(),
    };
    #[cfg(kani)]
    {
        unsafe { RND_LEN = 16; }
        let r = Decoder::from_password(&dict, &id, &pass);
        let ok = matches!(&r, Ok(d) if d.key_size == 32 && d.key.len() >= 32);
        std::mem::forget(r);
        assert!(ok);
        unsafe { assert!(RND_CALLS == 50 && !RND_BADLEN); }
    }
    #[cfg(verif_replay)]
    {
        // natively: the call must return (Ok or Err); a panic fails the test
        let _ = Decoder::from_password(&dict, &id, &pass);
    }
    std::mem::forget(dict);
}

/// Algorithm 7 (owner password), revision 3 with a 40-bit key: the /O entry is unwrapped with TWENTY RC4 passes (one only in
/// revision 2), each keyed with the owner key XOR the pass number. Stubs: MD5 contexts/rounds and RC4 are recording stubs;
/// with them the second password check cannot succeed, so the observable is the sequence of cipher calls.
static mut RC4_LOG_KEY0: [u8; 64] = [0; 64];
fn rc4_count_spy(key: &[u8], _data: &mut [u8]) {
    unsafe { if RC4_CALLS < 64 && !key.is_empty() { RC4_LOG_KEY0[RC4_CALLS] = key[0]; } RC4_CALLS += 1; RC4_KEYLEN = key.len(); }
}
#[kani::proof]
#[kani::stub(std::fmt::format, nofmt)]
#[kani::stub(std::hash::RandomState::new, fixed_rs)]
#[kani::stub(md5::Context::new, ctx_new_spy)]
#[kani::stub(md5::Context::consume, ctx_consume_spy)]
#[kani::stub(md5::Context::compute, ctx_compute_spy)]
#[kani::stub(md5::compute, md5_round_spy)]
#[kani::stub(crate::crypt::Rc4::encrypt, rc4_count_spy)]
fn crypt_owner_unwrap_rev3_40bit() {
    let pass: [u8; 4] = kani::any();
    let o = [0x4fu8; 32]; let id = [0x1du8; 16];
    #[cfg(kani)]
    {
        let u = [0x55u8; 32];      // never matches the stubbed digest: the user-password check fails, the owner path runs
        let dict = CryptDict {
            o: PdfString::new(o[..].into()), u: PdfString::new(u[..].into()), r: 3, p: -4, v: 2,
            bits: 40, crypt_filters: HashMap::new(), default_crypt_filter: None, encrypt_metadata: true,
            oe: None, ue: None, _other: Dictionary::new(),
        };
        unsafe { RND_LEN = 5; }
        let r = Decoder::from_password(&dict, &id, &pass);
        std::mem::forget(r);
        unsafe {
            // user check (1 + 19 passes), owner unwrap (20 passes), second user check (1 + 19 passes)
            assert!(RC4_CALLS == 60);
            assert!(RC4_KEYLEN == 5);
            // unwrap pass k (calls 20..39) is keyed with digest[0] ^ k
            let k: usize = kani::any();
            kani::assume(k < 20);
            assert!(RC4_LOG_KEY0[20 + k] == DIGEST[0] ^ (k as u8));
        }
        std::mem::forget(dict);
    }
    #[cfg(verif_replay)]
    {
        // native oracle: build /O and /U for (user "u", owner `pass`) with the real md5 crate and a textbook RC4 as Algorithms
        // 2, 3 and 5 prescribe, then require the real from_password to accept the OWNER password
        let pad = |p: &[u8]| { let n = p.len().min(32); let mut v = p[..n].to_vec(); v.extend_from_slice(&PADDING[..32 - n]); v };
        let ks = 5usize;
        let mut okey = md5::compute(&pad(&pass)).0;
        for _ in 0..50 { okey = md5::compute(&okey).0; }
        let mut oval = pad(b"u");
        for i in 0u8..20 { let k: Vec<u8> = okey[..ks].iter().map(|b| b ^ i).collect(); rc4_ref(&k, &mut oval); }
        let mut m = pad(b"u"); m.extend_from_slice(&oval); m.extend_from_slice(&(-4i32).to_le_bytes()); m.extend_from_slice(&id);
        let mut key = md5::compute(&m).0;
        for _ in 0..50 { key = md5::compute(&key[..ks]).0; }
        let mut h = PADDING.to_vec(); h.extend_from_slice(&id);
        let mut ud = md5::compute(&h).0;
        for i in 0u8..20 { let k: Vec<u8> = key[..ks].iter().map(|b| b ^ i).collect(); rc4_ref(&k, &mut ud); }
        let mut u = [0u8; 32]; u[..16].copy_from_slice(&ud);
        let dict = CryptDict {
            o: PdfString::new(oval[..].into()), u: PdfString::new(u[..].into()), r: 3, p: -4, v: 2,
            bits: 40, crypt_filters: HashMap::new(), default_crypt_filter: None, encrypt_metadata: true,
            oe: None, ue: None, _other: Dictionary::new(),
        };
        let _ = o;
        let r = Decoder::from_password(&dict, &id, &pass);
        assert!(r.is_ok());
    }
}
