//@ target: pdf/src/parser/lexer/mod.rs
// C03: the VALUE of integer tokens (sign, leading zeros) as the object parser reads them: Substr::to::<i32>().
use super::*;

fn nofmt(_a: std::fmt::Arguments<'_>) -> String { String::new() }
/// UTF-8 validation restricted to ASCII input (the harness assumes ASCII): the real validator on symbolic bytes exhausts memory
fn ascii_utf8(v: &[u8]) -> std::result::Result<&str, std::str::Utf8Error> {
    let mut i = 0;
    while i < v.len() { if v[i] >= 0x80 { return std::str::from_utf8(&[0xffu8][..]).map(|_| ""); } i += 1; }
    Ok(unsafe { std::str::from_utf8_unchecked(v) })
}
fn digit(b: u8) -> bool { b >= b'0' && b <= b'9' }

fn int_value<const L: usize>() {
    let buf: [u8; L] = kani::any();
    // tokens the grammar calls integers: [+-]? d+
    let signed = buf[0] == b'+' || buf[0] == b'-';
    let start = if signed { 1 } else { 0 };
    kani::assume(start < L);
    let mut i = start; let mut v: i64 = 0;
    while i < L { kani::assume(digit(buf[i])); v = v * 10 + (buf[i] - b'0') as i64; i += 1; }
    if buf[0] == b'-' { v = -v; }
    let s = Substr::new(&buf[..], 0);
    assert!(s.is_integer());
    let r = s.to::<i32>();
    let ok = matches!(&r, Ok(x) if *x as i64 == v);
    std::mem::forget(r);
    assert!(ok);
}
#[kani::proof]
#[kani::stub(std::fmt::format, nofmt)]
#[kani::stub(std::str::from_utf8, ascii_utf8)]
fn lex2_int_value_l2() { int_value::<2>() }
#[kani::proof]
#[kani::stub(std::fmt::format, nofmt)]
#[kani::stub(std::str::from_utf8, ascii_utf8)]
fn lex2_int_value_l4() { int_value::<4>() }
