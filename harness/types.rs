//@ target: pdf/src/object/types.rs
// C07: page n is the n-th leaf in depth-first order; attributes come from the nearest ancestor. C14: inconsistent counts.
use super::*;
use crate::parser::ParseFlags;
use std::ops::Range;

fn nofmt(_a: std::fmt::Arguments<'_>) -> String { String::new() }
fn fixed_rs() -> std::hash::RandomState { unsafe { std::mem::transmute::<[u64; 2], std::hash::RandomState>([1, 2]) } }

/// resolver backed by a table of already-typed page-tree nodes (object number = table index)
struct TableResolve { nodes: Vec<RcRef<PagesNode>> }
impl Resolve for TableResolve {
    fn resolve_flags(&self, _: PlainRef, _: ParseFlags, _: usize) -> Result<Primitive> { Err(PdfError::Reference) }
    fn get<T: Object + DataSize>(&self, r: Ref<T>) -> Result<RcRef<T>> {
        let id = r.get_inner().id as usize;
        if id >= self.nodes.len() { return Err(PdfError::Reference); }
        let c: RcRef<PagesNode> = self.nodes[id].clone();
        // T is PagesNode in every use of this resolver
        Ok(unsafe { std::mem::transmute_copy::<RcRef<PagesNode>, RcRef<T>>(&std::mem::ManuallyDrop::new(c)) })
    }
    fn options(&self) -> &ParseOptions { static S: ParseOptions = ParseOptions::strict(); &S }
    fn stream_data(&self, _: PlainRef, _: Range<usize>) -> Result<Arc<[u8]>> { Err(PdfError::Reference) }
    fn get_data_or_decode(&self, _: PlainRef, _: Range<usize>, _: &[StreamFilter]) -> Result<Arc<[u8]>> { Err(PdfError::Reference) }
}

/// shape description: node i = (parent index or usize::MAX, leaf?, kids as object numbers, /Count = number of leaves below);
/// parents come before their children. The expected answer is `order`: the leaves in depth-first document order.
#[derive(Clone, Copy)]
struct N { parent: usize, leaf: bool, kids: &'static [u64], count: u32 }

fn build(spec: &[N]) -> Vec<RcRef<PagesNode>> {
    let mut nodes: Vec<RcRef<PagesNode>> = Vec::with_capacity(spec.len());
    let mut i = 0;
    while i < spec.len() {
        let n = spec[i];
        let node = if n.leaf {
            PagesNode::Leaf(Page::new(PagesRc(nodes[n.parent].clone())))
        } else {
            PagesNode::Tree(PageTree {
                parent: if n.parent == usize::MAX { None } else { Some(PagesRc(nodes[n.parent].clone())) },
                kids: n.kids.iter().map(|&k| Ref::from_id(k)).collect(),
                count: n.count, resources: None, media_box: None, crop_box: None })
        };
        nodes.push(RcRef::new(PlainRef { id: i as u64, gen: 0 }, Arc::new(node)));
        i += 1;
    }
    nodes
}
fn page_ptr(n: &RcRef<PagesNode>) -> *const Page {
    match &**n.data() { PagesNode::Leaf(l) => l as *const Page, _ => std::ptr::null() }
}
/// page(i) for every i in 0..=count+2 is the i-th leaf in document order / PageOutOfBounds beyond
fn run_shape(spec: &[N], order: &[usize]) {
    let nodes = build(spec);
    let count = order.len() as u32;
    let r = TableResolve { nodes: nodes.clone() };
    let nr: u32 = kani::any();
    kani::assume(nr <= count + 2);
    let root = match &**nodes[0].data() { PagesNode::Tree(t) => t, _ => unreachable!() };
    assert!(root.count == count);
    let res = root.page(&r, nr);
    let ok = match &res {
        Ok(p) => nr < count && std::ptr::eq(&**p as *const Page, page_ptr(&nodes[order[nr as usize]])),
        Err(PdfError::PageOutOfBounds { .. }) => nr >= count,
        Err(_) => false,
    };
    std::mem::forget(res); std::mem::forget(r); std::mem::forget(nodes);
    assert!(ok);
}
const R: usize = usize::MAX;
macro_rules! shape {
    ($name:ident, [$( ($p:expr, $leaf:expr, [$($k:expr),*], $c:expr) ),* $(,)?], [$($o:expr),*]) => {
        #[kani::proof]
        #[kani::stub(std::fmt::format, nofmt)]
        #[kani::stub(std::hash::RandomState::new, fixed_rs)]
        fn $name() { run_shape(&[ $( N { parent: $p, leaf: $leaf, kids: &[$($k),*], count: $c } ),* ], &[$($o),*]); }
    };
}
// root[L, L]
shape!(types_page_flat2, [(R, false, [1, 2], 2), (0, true, [], 1), (0, true, [], 1)], [1, 2]);
// root[T[L, L], L]
shape!(types_page_nested, [(R, false, [1, 2], 3), (0, false, [3, 4], 2), (0, true, [], 1), (1, true, [], 1), (1, true, [], 1)], [3, 4, 2]);
// root[L, T[], T[L], L]   (empty intermediate node)
shape!(types_page_empty_mid, [(R, false, [1, 2, 3, 4], 3), (0, true, [], 1), (0, false, [], 0), (0, false, [5], 1), (0, true, [], 1),
    (3, true, [], 1)], [1, 5, 4]);
// root[T[L, L, L], T[L, T[L, L]], L]
shape!(types_page_bushy, [(R, false, [1, 2, 3], 7), (0, false, [4, 5, 6], 3), (0, false, [7, 8], 3), (0, true, [], 1),
    (1, true, [], 1), (1, true, [], 1), (1, true, [], 1), (2, true, [], 1), (2, false, [9, 10], 2), (8, true, [], 1), (8, true, [], 1)],
    [4, 5, 6, 7, 9, 10, 3]);
// root[T[T[T[L]]], L]
shape!(types_page_chain4, [(R, false, [1, 5], 2), (0, false, [2], 1), (1, false, [3], 1), (2, false, [4], 1), (3, true, [], 1),
    (0, true, [], 1)], [4, 5]);
// 13 levels: root -> 12 nested single-kid trees -> leaf, plus a second leaf at the root
shape!(types_page_chain13, [(R, false, [1, 14], 2), (0, false, [2], 1), (1, false, [3], 1), (2, false, [4], 1), (3, false, [5], 1),
    (4, false, [6], 1), (5, false, [7], 1), (6, false, [8], 1), (7, false, [9], 1), (8, false, [10], 1), (9, false, [11], 1),
    (10, false, [12], 1), (11, false, [13], 1), (12, true, [], 1), (0, true, [], 1)], [13, 14]);
// root[T[], L, T[L, L]]   (as many kids as pages, but not all kids are leaves)
shape!(types_page_kids_eq_count, [(R, false, [1, 2, 3], 3), (0, false, [], 0), (0, true, [], 1), (0, false, [4, 5], 2),
    (3, true, [], 1), (3, true, [], 1)], [2, 4, 5]);
// root[] (no pages at all)
shape!(types_page_empty, [(R, false, [], 0)], []);

/// descent step for ARBITRARY consistent counts: root with three tree kids whose /Count values are symbolic; each kid has a
/// single leaf, so the index the kid is asked for is observable (leaf for 0, PageOutOfBounds{page_nr: local index} otherwise)
fn descent(consistent: bool) {
    let c: [u32; 3] = kani::any();
    if consistent { kani::assume((c[0] as u64 + c[1] as u64 + c[2] as u64) <= u32::MAX as u64); }
    let mk_tree = |id: u64, parent: Option<&RcRef<PagesNode>>, kids: &[u64], count: u32| {
        RcRef::new(PlainRef { id, gen: 0 }, Arc::new(PagesNode::Tree(PageTree {
            parent: parent.map(|p| PagesRc(p.clone())), kids: kids.iter().map(|&k| Ref::from_id(k)).collect(), count,
            resources: None, media_box: None, crop_box: None })))
    };
    let root = mk_tree(0, None, &[1, 2, 3], c[0].wrapping_add(c[1]).wrapping_add(c[2]));
    let t1 = mk_tree(1, Some(&root), &[4], c[0]);
    let t2 = mk_tree(2, Some(&root), &[5], c[1]);
    let t3 = mk_tree(3, Some(&root), &[6], c[2]);
    let leaf = |id: u64, p: &RcRef<PagesNode>| RcRef::new(PlainRef { id, gen: 0 }, Arc::new(PagesNode::Leaf(Page::new(PagesRc(p.clone())))));
    let l1 = leaf(4, &t1); let l2 = leaf(5, &t2); let l3 = leaf(6, &t3);
    let nodes = vec![root.clone(), t1, t2, t3, l1, l2, l3];
    let r = TableResolve { nodes: nodes.clone() };
    let nr: u32 = kani::any();
    let rt = match &**root.data() { PagesNode::Tree(t) => t, _ => unreachable!() };
    let res = rt.page(&r, nr);
    if consistent {
        let p0 = 0u64; let p1 = c[0] as u64; let p2 = p1 + c[1] as u64; let p3 = p2 + c[2] as u64;
        let n = nr as u64;
        let (kid, local) = if n < p1 { (0usize, n - p0) } else if n < p2 { (1, n - p1) } else if n < p3 { (2, n - p2) } else { (3, n) };
        let ok = match &res {
            Ok(p) => kid < 3 && local == 0 && std::ptr::eq(&**p as *const Page, page_ptr(&nodes[4 + kid])),
            Err(PdfError::PageOutOfBounds { page_nr, max }) =>
                if kid < 3 { local != 0 && *page_nr as u64 == local && *max == 1 } else { *page_nr == nr && *max as u64 == p3 },
            Err(_) => false,
        };
        assert!(ok);
    }
    // inconsistent counts (C14): any value or error, never a panic
    std::mem::forget(res); std::mem::forget(r); std::mem::forget(nodes);
}
#[kani::proof]
#[kani::stub(std::fmt::format, nofmt)]
#[kani::stub(std::hash::RandomState::new, fixed_rs)]
fn types_page_descent_counts() { descent(true) }
#[kani::proof]
#[kani::stub(std::fmt::format, nofmt)]
#[kani::stub(std::hash::RandomState::new, fixed_rs)]
fn types_page_hostile_counts() { descent(false) }

/// a page tree whose kid is itself: the walk must end in an error within the depth budget, not recurse forever
#[kani::proof]
#[kani::stub(std::fmt::format, nofmt)]
#[kani::stub(std::hash::RandomState::new, fixed_rs)]
fn types_page_self_cycle() {
    let count: u32 = kani::any();
    let root = RcRef::new(PlainRef { id: 0, gen: 0 }, Arc::new(PagesNode::Tree(PageTree {
        parent: None, kids: vec![Ref::from_id(0)], count, resources: None, media_box: None, crop_box: None })));
    let r = TableResolve { nodes: vec![root.clone()] };
    let nr: u32 = kani::any();
    let rt = match &**root.data() { PagesNode::Tree(t) => t, _ => unreachable!() };
    let res = rt.page(&r, nr);
    assert!(res.is_err());
    std::mem::forget(res); std::mem::forget(r);
}

/// inheritance: chain root -> t1 -> t2 -> page; each level may or may not carry MediaBox / CropBox; the page too.
#[kani::proof]
#[kani::stub(std::fmt::format, nofmt)]
#[kani::stub(std::hash::RandomState::new, fixed_rs)]
fn types_inherit_boxes() {
    let has_m: [bool; 4] = kani::any();     // root, t1, t2, page
    let has_c: [bool; 4] = kani::any();
    let rect = |v: f32| Rectangle { left: v, bottom: 0.0, right: 1.0, top: 1.0 };
    let mk = |id: u64, parent: Option<&RcRef<PagesNode>>, lvl: usize| {
        RcRef::new(PlainRef { id, gen: 0 }, Arc::new(PagesNode::Tree(PageTree {
            parent: parent.map(|p| PagesRc(p.clone())), kids: vec![Ref::from_id(id + 1)], count: 1, resources: None,
            media_box: if has_m[lvl] { Some(rect(10.0 + lvl as f32)) } else { None },
            crop_box: if has_c[lvl] { Some(rect(20.0 + lvl as f32)) } else { None } })))
    };
    let root = mk(0, None, 0);
    let t1 = mk(1, Some(&root), 1);
    let t2 = mk(2, Some(&t1), 2);
    let mut page = Page::new(PagesRc(t2.clone()));
    if has_m[3] { page.media_box = Some(rect(13.0)); }
    if has_c[3] { page.crop_box = Some(rect(23.0)); }
    // nearest level (page=3 down to root=0) that has the attribute
    let near = |has: &[bool; 4]| -> Option<usize> { let mut i = 4; while i > 0 { i -= 1; if has[i] { return Some(i); } } None };
    let m = page.media_box();
    let okm = match (&m, near(&has_m)) { (Ok(b), Some(l)) => b.left == 10.0 + l as f32, (Err(_), None) => true, _ => false };
    let c = page.crop_box();
    let okc = match (&c, near(&has_c), near(&has_m)) {
        (Ok(b), Some(l), _) => b.left == 20.0 + l as f32,
        (Ok(b), None, Some(l)) => b.left == 10.0 + l as f32,
        (Err(_), None, None) => true,
        _ => false };
    std::mem::forget(m); std::mem::forget(c); std::mem::forget(page);
    assert!(okm);
    assert!(okc);
}

/// resources: own entry, else nearest ancestor (pointer identity of the shared Resources value)
#[kani::proof]
#[kani::stub(std::fmt::format, nofmt)]
#[kani::stub(std::hash::RandomState::new, fixed_rs)]
fn types_inherit_resources() {
    let has: [bool; 3] = kani::any();     // root, t1, page
    let res: [Arc<Resources>; 3] = [Arc::new(Resources::default()), Arc::new(Resources::default()), Arc::new(Resources::default())];
    let mk = |id: u64, parent: Option<&RcRef<PagesNode>>, lvl: usize| {
        RcRef::new(PlainRef { id, gen: 0 }, Arc::new(PagesNode::Tree(PageTree {
            parent: parent.map(|p| PagesRc(p.clone())), kids: vec![Ref::from_id(id + 1)], count: 1,
            resources: if has[lvl] { Some(MaybeRef::Direct(res[lvl].clone())) } else { None }, media_box: None, crop_box: None })))
    };
    let root = mk(0, None, 0);
    let t1 = mk(1, Some(&root), 1);
    let mut page = Page::new(PagesRc(t1.clone()));
    if has[2] { page.resources = Some(MaybeRef::Direct(res[2].clone())); }
    let want = if has[2] { Some(2) } else if has[1] { Some(1) } else if has[0] { Some(0) } else { None };
    let got = page.resources();
    let ok = match (&got, want) {
        (Ok(MaybeRef::Direct(a)), Some(l)) => Arc::ptr_eq(a, &res[l]),
        (Err(_), None) => true,
        _ => false };
    std::mem::forget(got); std::mem::forget(page);
    assert!(ok);
}
