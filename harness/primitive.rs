//@ target: pdf/src/primitive.rs
// C04 (strings and names): the bytes the serializer writes for a string are decoded back to the same bytes by the REFERENCE
// decoders (literal and hexadecimal strings, ISO 32000-1 §7.3.4); the real string lexers are shown to agree with the same
// reference decoders under C03 (strlex_* obligations) -- together: serialise, then parse, gives the value back.
use super::*;

fn nofmt(_a: std::fmt::Arguments<'_>) -> String { String::new() }

fn hexd(c: u8) -> Option<u8> {
    match c { b'0'..=b'9' => Some(c - b'0'), b'a'..=b'f' => Some(c - b'a' + 10), b'A'..=b'F' => Some(c - b'A' + 10), _ => None }
}
/// reference decoder for a complete string token (with its delimiters). Returns the decoded bytes or None.
/// Literal strings: escapes, balanced parentheses; raw bytes are taken as they are (the writer emits CR raw, the reader
/// keeps raw CR -- the pair is what C04 is about, see strlex_lit_step for the reader side).
fn string_ref<const L: usize, const O: usize>(t: &[u8; L], len: usize) -> Option<(usize, [u8; O])> {
    let mut out = [0u8; O]; let mut n = 0usize;
    if len < 2 { return None; }
    if t[0] == b'(' {
        let mut i = 1; let mut depth = 0u32;
        while i < len {
            let c = t[i]; i += 1;
            if c == b'\\' {
                if i >= len { return None; }
                let e = t[i]; i += 1;
                if e == b'\n' || e == b'\r' {           // line continuation: produces nothing
                    if e == b'\r' && i < len && t[i] == b'\n' { i += 1; }
                    continue;
                }
                let v = if e >= b'0' && e <= b'7' {      // octal code, 1..3 digits, high-order overflow ignored
                    let mut v = (e - b'0') as u32; let mut k = 0;
                    while k < 2 && i < len && t[i] >= b'0' && t[i] <= b'7' { v = v * 8 + (t[i] - b'0') as u32; i += 1; k += 1; }
                    (v & 0xff) as u8
                } else { match e { b'n' => b'\n', b'r' => b'\r', b't' => b'\t', b'b' => 8, b'f' => 12, other => other } };
                if n >= O { return None; } out[n] = v; n += 1;
            } else if c == b'(' { depth += 1; if n >= O { return None; } out[n] = c; n += 1; }
            else if c == b')' {
                if depth == 0 { return if i == len { Some((n, out)) } else { None }; }
                depth -= 1; if n >= O { return None; } out[n] = c; n += 1;
            } else { if n >= O { return None; } out[n] = c; n += 1; }
        }
        None
    } else if t[0] == b'<' {
        let mut i = 1; let mut hi: Option<u8> = None;
        while i < len {
            let c = t[i]; i += 1;
            if c == b'>' {
                if let Some(h) = hi { if n >= O { return None; } out[n] = h << 4; n += 1; }
                return if i == len { Some((n, out)) } else { None };
            }
            match hexd(c) { None => return None, Some(v) => match hi { None => hi = Some(v), Some(h) => { if n >= O { return None; } out[n] = (h << 4) | v; n += 1; hi = None; } } }
        }
        None
    } else { None }
}
fn string_case<const N: usize, const L: usize>() {
    let d: [u8; N] = kani::any();
    let ps = PdfString::new(d[..].into());
    let mut out: Vec<u8> = Vec::with_capacity(L);
    let r = ps.serialize(&mut out);
    assert!(r.is_ok());
    std::mem::forget(r);
    assert!(out.len() <= L);
    let mut t = [0u8; L];
    let mut i = 0; while i < out.len() { t[i] = out[i]; i += 1; }
    let dec = string_ref::<L, N>(&t, out.len());
    let ok = match &dec { Some((n, w)) => *n == N && { let q: usize = kani::any(); q >= N || w[q] == d[q] }, None => false };
    assert!(ok);
    std::mem::forget(out); std::mem::forget(ps);
}
#[kani::proof]
#[kani::stub(std::fmt::format, nofmt)]
fn prim_string_ser_n0() { string_case::<0, 2>() }       // L = 4N+2: room for an octal escape per byte
#[kani::proof]
#[kani::stub(std::fmt::format, nofmt)]
fn prim_string_ser_n1() { string_case::<1, 6>() }
#[kani::proof]
#[kani::stub(std::fmt::format, nofmt)]
fn prim_string_ser_n2() { string_case::<2, 10>() }
#[kani::proof]
#[kani::stub(std::fmt::format, nofmt)]
fn prim_string_ser_n3() { string_case::<3, 14>() }

fn ws(b: u8) -> bool { matches!(b, 0 | 9 | 10 | 12 | 13 | 32) }
fn delim(b: u8) -> bool { matches!(b, b'(' | b')' | b'<' | b'>' | b'[' | b']' | b'{' | b'}' | b'/' | b'%') }
/// reference reader for a name token (ISO 32000-1 §7.3.5): '/' followed by regular characters, '#xx' denotes byte xx.
/// The token must consist of regular characters only (otherwise the lexer would split it).
fn name_ref<const L: usize, const O: usize>(t: &[u8; L], len: usize) -> Option<(usize, [u8; O])> {
    let mut out = [0u8; O]; let mut n = 0usize;
    if len < 1 || t[0] != b'/' { return None; }
    let mut i = 1;
    while i < len {
        let c = t[i]; i += 1;
        if ws(c) || delim(c) { return None; }
        let v = if c == b'#' {
            if i + 1 >= len + 0 && i + 2 > len { return None; }
            let (h, l) = (hexd(t[i]), hexd(t[i + 1]));
            i += 2;
            match (h, l) { (Some(h), Some(l)) => (h << 4) | l, _ => return None }
        } else { c };
        if n >= O { return None; }
        out[n] = v; n += 1;
    }
    Some((n, out))
}
/// names made of N arbitrary ASCII characters (0x00..=0x7f): serialising does not panic and the token reads back as the name
fn name_case<const N: usize, const L: usize>() {
    let d: [u8; N] = kani::any();
    let mut i = 0; while i < N { kani::assume(d[i] < 0x80); i += 1; }
    let s = unsafe { std::str::from_utf8_unchecked(&d) };      // ASCII by the assumption above
    let mut out: Vec<u8> = Vec::with_capacity(L);
    let r = serialize_name(s, &mut out);
    assert!(r.is_ok());
    std::mem::forget(r);
    assert!(out.len() <= L);
    let mut t = [0u8; L];
    let mut i = 0; while i < out.len() { t[i] = out[i]; i += 1; }
    let dec = name_ref::<L, N>(&t, out.len());
    let ok = match &dec { Some((n, w)) => *n == N && { let q: usize = kani::any(); q >= N || w[q] == d[q] }, None => false };
    assert!(ok);
    std::mem::forget(out);
}
#[kani::proof]
#[kani::stub(std::fmt::format, nofmt)]
fn prim_name_ser_n1() { name_case::<1, 4>() }
#[kani::proof]
#[kani::stub(std::fmt::format, nofmt)]
fn prim_name_ser_n2() { name_case::<2, 7>() }
/// a two-byte UTF-8 character (U+0080..U+07FF): no panic, reads back as the same two bytes
#[kani::proof]
#[kani::stub(std::fmt::format, nofmt)]
fn prim_name_ser_utf8() {
    let c: u32 = kani::any();
    kani::assume(c >= 0x80 && c <= 0x7ff);
    let ch = char::from_u32(c).unwrap();
    let mut b = [0u8; 4];
    let s: &str = ch.encode_utf8(&mut b);
    let mut out: Vec<u8> = Vec::with_capacity(8);
    let r = serialize_name(s, &mut out);
    assert!(r.is_ok());
    std::mem::forget(r);
    assert!(out.len() <= 7);
    let mut t = [0u8; 7];
    let mut i = 0; while i < out.len() { t[i] = out[i]; i += 1; }
    let dec = name_ref::<7, 2>(&t, out.len());
    let e0 = 0xC0 | (c >> 6) as u8; let e1 = 0x80 | (c & 0x3f) as u8;
    assert!(matches!(&dec, Some((2, w)) if w[0] == e0 && w[1] == e1));
    std::mem::forget(out);
}
