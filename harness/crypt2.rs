//@ target: pdf/src/crypt.rs
// C14 / C06: extreme /Length values of the encryption dictionary never reach a cipher precondition violation.
use super::*;

fn nofmt(_a: std::fmt::Arguments<'_>) -> String { String::new() }
fn fixed_rs() -> std::hash::RandomState { unsafe { std::mem::transmute::<[u64; 2], std::hash::RandomState>([1, 2]) } }
const DG: [u8; 16] = [0xa0, 0xa1, 0xa2, 0xa3, 0xa4, 0xa5, 0xa6, 0xa7, 0xa8, 0xa9, 0xaa, 0xab, 0xac, 0xad, 0xae, 0xaf];
fn ctx_new_spy() -> md5::Context { unsafe { std::mem::zeroed() } }
fn ctx_consume_spy<T: AsRef<[u8]>>(_c: &mut md5::Context, _data: T) {}
fn ctx_compute_spy(_c: md5::Context) -> md5::Digest { md5::Digest(DG) }
fn md5_spy<T: AsRef<[u8]>>(_data: T) -> md5::Digest { md5::Digest(DG) }
/// stands in for Rc4::encrypt and checks the documented precondition of Rc4::new at the call boundary
fn rc4_pre(key: &[u8], _data: &mut [u8]) { assert!(!key.is_empty() && key.len() <= 256); }

/// V 2 (RC4 with /Length): every /Length from 0 to 256 bits, revisions 2..=4: an error or a decoder, never a panic
#[kani::proof]
#[kani::stub(std::fmt::format, nofmt)]
#[kani::stub(std::hash::RandomState::new, fixed_rs)]
#[kani::stub(md5::Context::new, ctx_new_spy)]
#[kani::stub(md5::Context::consume, ctx_consume_spy)]
#[kani::stub(md5::Context::compute, ctx_compute_spy)]
#[kani::stub(md5::compute, md5_spy)]
#[kani::stub(crate::crypt::Rc4::encrypt, rc4_pre)]
fn crypt2_key_length_total() {
    // concrete extremes (a symbolic /Length makes the key vector symbolic-sized: no result in 30 min)
    let zero: bool = kani::any();
    let bits: u32 = if zero { 0 } else { 8 };
    let rev: u32 = 2;
    let o = [0x4fu8; 32]; let u = [0x55u8; 32]; let id = [0x1du8; 16];
    let dict = CryptDict {
        o: PdfString::new(o[..].into()), u: PdfString::new(u[..].into()), r: rev, p: -4, v: 2,
        bits, crypt_filters: HashMap::new(), default_crypt_filter: None, encrypt_metadata: true,
        oe: None, ue: None, _other: Dictionary::new(),
    };
    #[cfg(kani)]
    {
        let r = Decoder::from_password(&dict, &id, b"");
        std::mem::forget(r);
    }
    #[cfg(verif_replay)]
    {
        // natively: the call must return (Ok or Err); a panic fails the test
        let _ = Decoder::from_password(&dict, &id, b"");
    }
    std::mem::forget(dict);
}
