//@ target: pdf/src/content.rs
// C08 (writer half): serialize_ops output, read by a REFERENCE content-stream reader written from ISO 32000-1 Table 51
// (incl. the expansions of the shorthand operators), gives back the operation sequence. Number formatting is replaced by
// a recording stub that writes the f32 bit pattern as the token Fxxxxxxxx (float formatting is not symbolically tractable;
// what is decided is the STRUCTURE the writer emits: operator choice, operand order, separators) for ALL operand values.
// The real dispatch OpBuilder::add is shown to implement the same table under the content_grp_* obligations.
use super::*;

fn nofmt(_a: std::fmt::Arguments<'_>) -> String { String::new() }
const HEX: &[u8; 16] = b"0123456789abcdef";
fn f32_token(v: &f32, f: &mut fmt::Formatter<'_>) -> fmt::Result {
    let b = v.to_bits();
    let mut s = [b'F'; 9];
    let mut i = 0;
    while i < 8 { s[1 + i] = HEX[((b >> (28 - 4 * i)) & 0xf) as usize]; i += 1; }
    f.write_str(unsafe { std::str::from_utf8_unchecked(&s) })
}

/// reference token reader: splits on white-space; returns (kind, value): number token -> f32 bits; anything else -> raw
fn is_ws(b: u8) -> bool { matches!(b, 0 | 9 | 10 | 12 | 13 | 32) }
fn hexv(c: u8) -> Option<u32> { match c { b'0'..=b'9' => Some((c - b'0') as u32), b'a'..=b'f' => Some((c - b'a' + 10) as u32), _ => None } }
struct Toks<'a> { d: &'a [u8], pos: usize }
enum Tok<'a> { Num(f32), Word(&'a [u8]), End, Bad }
impl<'a> Toks<'a> {
    fn next(&mut self) -> Tok<'a> {
        while self.pos < self.d.len() && is_ws(self.d[self.pos]) { self.pos += 1; }
        if self.pos >= self.d.len() { return Tok::End; }
        let start = self.pos;
        while self.pos < self.d.len() && !is_ws(self.d[self.pos]) { self.pos += 1; }
        let w = &self.d[start..self.pos];
        if w[0] == b'F' {
            if w.len() != 9 { return Tok::Bad; }
            let mut v = 0u32; let mut i = 1;
            while i < 9 { match hexv(w[i]) { Some(h) => v = (v << 4) | h, None => return Tok::Bad } i += 1; }
            Tok::Num(f32::from_bits(v))
        } else { Tok::Word(w) }
    }
}
fn finite(v: f32) -> f32 { kani::assume(v.is_finite()); v }
fn pt() -> Point { Point { x: finite(kani::any()), y: finite(kani::any()) } }
fn same_pt(a: Point, b: Point) -> bool { a.x.to_bits() == b.x.to_bits() && a.y.to_bits() == b.y.to_bits() }

/// [MoveTo p0, CurveTo{c1,c2,p}] for all points: the text must read back as these two operations
#[kani::proof]
#[kani::stub(std::fmt::format, nofmt)]
#[kani::stub(<f32 as std::fmt::Display>::fmt, f32_token)]
fn content_ser_move_curve() {
    let p0 = pt(); let c1 = pt(); let c2 = pt(); let p = pt();
    let ops = vec![Op::MoveTo { p: p0 }, Op::CurveTo { c1, c2, p }];
    let out = serialize_ops(&ops).unwrap();
    let mut t = Toks { d: &out, pos: 0 };
    // m
    let (x, y) = match (t.next(), t.next(), t.next()) { (Tok::Num(x), Tok::Num(y), Tok::Word(b"m")) => (x, y), _ => { assert!(false); return; } };
    assert!(same_pt(Point { x, y }, p0));
    // curve operator: c (6 numbers), v (4, c1 = current point), y (4, c2 = p)
    let mut nums = [0f32; 6]; let mut n = 0;
    let op = loop { match t.next() { Tok::Num(v) => { if n < 6 { nums[n] = v; } n += 1; } Tok::Word(w) => break w, _ => { assert!(false); return; } } };
    let (g1, g2, gp) = if op == b"c" && n == 6 { (Point { x: nums[0], y: nums[1] }, Point { x: nums[2], y: nums[3] }, Point { x: nums[4], y: nums[5] }) }
        else if op == b"v" && n == 4 { (p0, Point { x: nums[0], y: nums[1] }, Point { x: nums[2], y: nums[3] }) }
        else if op == b"y" && n == 4 { (Point { x: nums[0], y: nums[1] }, Point { x: nums[2], y: nums[3] }, Point { x: nums[2], y: nums[3] }) }
        else { assert!(false); return; };
    // equality as the operation sequence defines it (f32 ==, so -0.0 == 0.0)
    assert!(g1 == c1 && g2 == c2 && gp == p);
    assert!(matches!(t.next(), Tok::End));
    std::mem::forget(ops); std::mem::forget(out);
}
