//@ target: pdf/src/object/types.rs
// C07, second attempt at the page-number descent: the resolver hands out FRESHLY BUILT nodes per request (concrete dispatch on
// the object number) instead of clones of shared table entries, so that every pointer CBMC sees is to an object created on the
// current path. Leaves are identified by a marker in Page::rotate.
use super::*;
use crate::parser::ParseFlags;
use std::ops::Range;

fn nofmt(_a: std::fmt::Arguments<'_>) -> String { String::new() }
fn fixed_rs() -> std::hash::RandomState { unsafe { std::mem::transmute::<[u64; 2], std::hash::RandomState>([1, 2]) } }

fn mk_tree(id: u64, kids: &[u64], count: u32) -> RcRef<PagesNode> {
    RcRef::new(PlainRef { id, gen: 0 }, Arc::new(PagesNode::Tree(PageTree {
        parent: None, kids: kids.iter().map(|&k| Ref::from_id(k)).collect(), count, resources: None, media_box: None, crop_box: None })))
}
fn mk_leaf(id: u64) -> RcRef<PagesNode> {
    let parent = mk_tree(999, &[], 0);
    let mut page = Page::new(PagesRc(parent));
    page.rotate = id as i32;
    RcRef::new(PlainRef { id, gen: 0 }, Arc::new(PagesNode::Leaf(page)))
}
/// shape: root(0)[ T(1)[], L(2), T(3)[L(4), L(5)] ]  -- as many kids as pages but not all kids are leaves; order 2,4,5
struct ShapeA;
impl Resolve for ShapeA {
    fn resolve_flags(&self, _: PlainRef, _: ParseFlags, _: usize) -> Result<Primitive> { Err(PdfError::Reference) }
    fn get<T: Object + DataSize>(&self, r: Ref<T>) -> Result<RcRef<T>> {
        let n = match r.get_inner().id {
            1 => mk_tree(1, &[], 0), 2 => mk_leaf(2), 3 => mk_tree(3, &[4, 5], 2), 4 => mk_leaf(4), 5 => mk_leaf(5),
            _ => return Err(PdfError::Reference),
        };
        Ok(unsafe { std::mem::transmute_copy::<RcRef<PagesNode>, RcRef<T>>(&std::mem::ManuallyDrop::new(n)) })
    }
    fn options(&self) -> &ParseOptions { static S: ParseOptions = ParseOptions::strict(); &S }
    fn stream_data(&self, _: PlainRef, _: Range<usize>) -> Result<Arc<[u8]>> { Err(PdfError::Reference) }
    fn get_data_or_decode(&self, _: PlainRef, _: Range<usize>, _: &[StreamFilter]) -> Result<Arc<[u8]>> { Err(PdfError::Reference) }
}
#[kani::proof]
#[kani::stub(std::fmt::format, nofmt)]
#[kani::stub(std::hash::RandomState::new, fixed_rs)]
fn types2_page_shape_a() {
    let root = PageTree { parent: None, kids: vec![Ref::from_id(1), Ref::from_id(2), Ref::from_id(3)], count: 3,
                          resources: None, media_box: None, crop_box: None };
    let nr: u32 = kani::any();
    kani::assume(nr <= 4);
    let res = root.page(&ShapeA, nr);
    let order = [2i32, 4, 5];
    let ok = match &res {
        Ok(p) => nr < 3 && p.rotate == order[nr as usize],
        Err(_) => nr >= 3,
    };
    std::mem::forget(res); std::mem::forget(root);
    assert!(ok);
}
