//@ target: pdf/src/object/types.rs
    use super::*;
    use crate::parser::ParseFlags;
    use crate::enc::StreamFilter;
    use std::ops::Range;
    fn nofmt(_a: std::fmt::Arguments<'_>) -> String { String::new() }
    fn fixed_rs() -> std::hash::RandomState { unsafe { std::mem::transmute::<[u64; 2], std::hash::RandomState>([1, 2]) } }

    struct TableResolve { nodes: Vec<RcRef<PagesNode>> }
    impl Resolve for TableResolve {
        fn resolve_flags(&self, _: PlainRef, _: ParseFlags, _: usize) -> Result<Primitive> { Err(PdfError::Reference) }
        fn get<T: Object+DataSize>(&self, r: Ref<T>) -> Result<RcRef<T>> {
            let id = r.get_inner().id as usize;
            if id >= self.nodes.len() { return Err(PdfError::Reference); }
            let n: &RcRef<PagesNode> = &self.nodes[id];
            let c: RcRef<PagesNode> = n.clone();
            Ok(unsafe { std::mem::transmute_copy::<RcRef<PagesNode>, RcRef<T>>(&std::mem::ManuallyDrop::new(c)) })
        }
        fn options(&self) -> &ParseOptions { static S: ParseOptions = ParseOptions::strict(); &S }
        fn stream_data(&self, _: PlainRef, _: Range<usize>) -> Result<Arc<[u8]>> { Err(PdfError::Reference) }
        fn get_data_or_decode(&self, _: PlainRef, _: Range<usize>, _: &[StreamFilter]) -> Result<Arc<[u8]>> { Err(PdfError::Reference) }
    }
    fn tree(kids: Vec<u64>, count: u32) -> RcRef<PagesNode> {
        let t = PageTree { parent: None, kids: kids.into_iter().map(Ref::from_id).collect(), count, resources: None, media_box: None, crop_box: None };
        RcRef::new(PlainRef { id: 0, gen: 0 }, Arc::new(PagesNode::Tree(t)))
    }
    fn leaf(parent: &RcRef<PagesNode>) -> RcRef<PagesNode> {
        RcRef::new(PlainRef { id: 0, gen: 0 }, Arc::new(PagesNode::Leaf(Page::new(PagesRc(parent.clone())))))
    }
    #[kani::proof]
    #[kani::stub(std::fmt::format, nofmt)]
    #[kani::stub(std::hash::RandomState::new, fixed_rs)]
    fn typesprobe_descent() {
        let root = tree(vec![1, 2], 3);
        let n1 = tree(vec![3, 4], 2);
        let n2 = leaf(&root); let n3 = leaf(&n1); let n4 = leaf(&n1);
        let r = TableResolve { nodes: vec![root.clone(), n1, n2.clone(), n3.clone(), n4.clone()] };
        let nr: u32 = kani::any(); kani::assume(nr <= 4);
        let rt = match &**root.data() { PagesNode::Tree(t) => t, _ => unreachable!() };
        let res = rt.page(&r, nr);
        let want: Option<&RcRef<PagesNode>> = match nr { 0 => Some(&n3), 1 => Some(&n4), 2 => Some(&n2), _ => None };
        match (&res, want) {
            (Ok(p), Some(w)) => assert!(std::ptr::eq(&**p as *const Page, match &**w.data() { PagesNode::Leaf(l) => l as *const Page, _ => unreachable!() })),
            (Err(_), None) => {},
            _ => assert!(false),
        }
        std::mem::forget(res); std::mem::forget(r);
    }
