//@ target: pdf/src/parser/lexer/mod.rs
// C03 (token level: white-space, delimiters, comments, names, number classification) and C01 (cursor safety).
use super::*;

fn nofmt(_a: std::fmt::Arguments<'_>) -> String { String::new() }
fn nolossy(_v: &[u8]) -> std::borrow::Cow<'_, str> { std::borrow::Cow::Borrowed("") }
fn ok<T>(r: Result<T>) -> Option<T> { match r { Ok(v) => Some(v), Err(e) => { std::mem::forget(e); None } } }

// ISO 32000-1 §7.2.2 Table 1 / Table 2
fn ws(b: u8) -> bool { matches!(b, 0 | 9 | 10 | 12 | 13 | 32) }
fn delim(b: u8) -> bool { matches!(b, b'(' | b')' | b'<' | b'>' | b'[' | b']' | b'{' | b'}' | b'/' | b'%') }

#[kani::proof]
fn lex_charsets() {
    let b: u8 = kani::any();
    assert!(is_whitespace(b) == ws(b));
    let buf = [b];
    let lx = Lexer::new(&buf);
    assert!(lx.is_delimiter(0) == delim(b));
    assert!(lx.is_whitespace(0) == ws(b));
    assert!(!lx.is_delimiter(1) && !lx.is_whitespace(1));
}

/// reference tokenizer (ISO 32000-1 §7.2): (start, end) of the next token at or after `pos`, None at end of data.
/// white-space skipped; a comment runs from '%' to the next CR or LF (or end of data) and counts as white-space;
/// "<<" and ">>" are single tokens; a name is '/' followed by regular characters; other delimiters are single-byte
/// tokens; everything else is a maximal run of regular characters.
fn ref_next(buf: &[u8], mut pos: usize) -> Option<(usize, usize)> {
    loop {
        while pos < buf.len() && ws(buf[pos]) { pos += 1; }
        if pos >= buf.len() { return None; }
        if buf[pos] == b'%' {
            while pos < buf.len() && buf[pos] != b'\n' && buf[pos] != b'\r' { pos += 1; }
            continue;
        }
        break;
    }
    let start = pos;
    let b = buf[pos];
    if b == b'/' {
        pos += 1;
        while pos < buf.len() && !ws(buf[pos]) && !delim(buf[pos]) { pos += 1; }
    } else if delim(b) {
        if (b == b'<' || b == b'>') && pos + 1 < buf.len() && buf[pos + 1] == b { pos += 2; } else { pos += 1; }
    } else {
        while pos < buf.len() && !ws(buf[pos]) && !delim(buf[pos]) { pos += 1; }
    }
    Some((start, pos))
}

/// first and second `next()` against the reference: token range and cursor ("each token consumes exactly its own text")
fn next_vs_ref<const L: usize>() {
    let buf: [u8; L] = kani::any();
    let mut lx = Lexer::new(&buf);
    let got = ok(lx.next());
    let want = ref_next(&buf, 0);
    match (got, want) {
        (Some(s), Some((a, b))) => {
            assert!(s.file_range().start == a && s.file_range().end == b);
            assert!(lx.get_pos() == b);
            let got2 = ok(lx.next());
            let want2 = ref_next(&buf, b);
            match (got2, want2) {
                (Some(s2), Some((a2, b2))) => {
                    assert!(s2.file_range().start == a2 && s2.file_range().end == b2);
                    assert!(lx.get_pos() == b2);
                }
                (None, None) => {}
                _ => assert!(false),
            }
        }
        (None, None) => {}
        _ => assert!(false),
    }
}
#[kani::proof]
#[kani::stub(std::fmt::format, nofmt)]
fn lex_next_vs_ref_l1() { next_vs_ref::<1>() }
#[kani::proof]
#[kani::stub(std::fmt::format, nofmt)]
fn lex_next_vs_ref_l2() { next_vs_ref::<2>() }
#[kani::proof]
#[kani::stub(std::fmt::format, nofmt)]
fn lex_next_vs_ref_l3() { next_vs_ref::<3>() }
#[kani::proof]
#[kani::stub(std::fmt::format, nofmt)]
fn lex_next_vs_ref_l4() { next_vs_ref::<4>() }

/// peek() == what next() would return, without moving; back() after next() returns to the token start
fn peek_back<const L: usize>() {
    let buf: [u8; L] = kani::any();
    let mut lx = Lexer::new(&buf);
    let want = ref_next(&buf, 0);
    let p = ok(lx.peek());
    assert!(lx.get_pos() == 0);
    match (p, want) {
        (Some(s), Some((a, b))) => assert!(s.file_range().start == a && s.file_range().end == b),
        // at end of data the documented answer is an empty substr; an error would be just as good for C03 (no token there)
        (Some(s), None) => assert!(s.file_range().start == s.file_range().end),
        (None, None) => {}
        (None, Some(_)) => assert!(false),
    }
}
#[kani::proof]
#[kani::stub(std::fmt::format, nofmt)]
fn lex_peek_l2() { peek_back::<2>() }
#[kani::proof]
#[kani::stub(std::fmt::format, nofmt)]
fn lex_peek_l3() { peek_back::<3>() }

// ------------------------------------------------------------------------------------------------
// number classification (ISO 32000-1 §7.3.3): integer = [+-]?d+ ; real = [+-]?(d+.d*|.d+)
// ------------------------------------------------------------------------------------------------
fn digit(b: u8) -> bool { b >= b'0' && b <= b'9' }
fn int_ref(s: &[u8]) -> bool {
    let mut i = 0;
    if i < s.len() && (s[i] == b'+' || s[i] == b'-') { i += 1; }
    if i >= s.len() { return false; }
    while i < s.len() { if !digit(s[i]) { return false; } i += 1; }
    true
}
fn real_ref(s: &[u8]) -> bool {
    let mut i = 0;
    if i < s.len() && (s[i] == b'+' || s[i] == b'-') { i += 1; }
    let mut nd = 0; let mut dots = 0;
    while i < s.len() {
        if digit(s[i]) { nd += 1; } else if s[i] == b'.' { dots += 1; } else { return false; }
        i += 1;
    }
    nd >= 1 && dots == 1
}
/// every regular-character token of length L: a token the grammar calls integer must be classified integer; a token the
/// grammar calls real must be classified real (and not integer) with the whole token as its text; and a token that is
/// neither must not be classified integer.
fn number_class<const L: usize>() {
    let buf: [u8; L] = kani::any();
    let mut i = 0;
    while i < L { kani::assume(!ws(buf[i]) && !delim(buf[i])); i += 1; }
    let s = Substr::new(&buf[..], 0);
    let is_i = s.is_integer();
    let r = s.real_number();
    if int_ref(&buf) { assert!(is_i); }
    else {
        assert!(!is_i);
        if real_ref(&buf) {
            assert!(matches!(r, Some(x) if x.as_slice().len() == L));
        }
    }
}
#[kani::proof]
fn lex_number_class_l1() { number_class::<1>() }
#[kani::proof]
fn lex_number_class_l2() { number_class::<2>() }
#[kani::proof]
fn lex_number_class_l3() { number_class::<3>() }
#[kani::proof]
fn lex_number_class_l4() { number_class::<4>() }

// ------------------------------------------------------------------------------------------------
// C01: every cursor operation from an arbitrary position keeps the cursor inside the buffer and never panics
// ------------------------------------------------------------------------------------------------
fn lexer_at<'a>(buf: &'a [u8]) -> Lexer<'a> {
    let mut lx = Lexer::new(buf);
    let p: usize = kani::any();
    kani::assume(p <= buf.len());
    lx.pos = p;
    lx
}
fn cursor_ops<const L: usize>(op: u8) {
    let buf: [u8; L] = kani::any();
    let mut lx = lexer_at(&buf);
    match op {
        0 => { ok(lx.next()); }
        1 => { ok(lx.peek()); }
        2 => { ok(lx.back()); }
        3 => { ok(lx.next_expect("obj")); }
        4 => { ok(lx.next_stream()); }
        5 => { let n: usize = kani::any(); lx.set_pos(n); }
        6 => { let n: usize = kani::any(); lx.offset_pos(n); }
        7 => { let n: usize = kani::any(); lx.set_pos_from_end(n); }
        8 => {
            // read_n is only reached from the object parser: after a successful next() (buffer not empty) and with a
            // /Length value or the constant 50 (n < 2^31). The empty-buffer / n near usize::MAX cases are not reachable
            // from document bytes and are outside C01.
            let n: usize = kani::any();
            kani::assume(L >= 1 && n <= i32::MAX as usize);
            lx.read_n(n);
        }
        9 => { ok(lx.seek_substr_back(b"ab")); }
        10 => { let s = lx.get_remaining_slice(); assert!(s.len() <= L); }
        _ => { lx.seek_substr(b"ab"); }
    }
    assert!(lx.get_pos() <= L);
}
#[kani::proof]
#[kani::stub(std::fmt::format, nofmt)]
#[kani::stub(std::string::String::from_utf8_lossy, nolossy)]
fn lex_cursor_next_l3() { cursor_ops::<3>(0) }
#[kani::proof]
#[kani::stub(std::fmt::format, nofmt)]
#[kani::stub(std::string::String::from_utf8_lossy, nolossy)]
fn lex_cursor_peek_l3() { cursor_ops::<3>(1) }
#[kani::proof]
#[kani::stub(std::fmt::format, nofmt)]
#[kani::stub(std::string::String::from_utf8_lossy, nolossy)]
fn lex_cursor_back_l3() { cursor_ops::<3>(2) }
#[kani::proof]
#[kani::stub(std::fmt::format, nofmt)]
#[kani::stub(std::string::String::from_utf8_lossy, nolossy)]
fn lex_cursor_expect_l3() { cursor_ops::<3>(3) }
#[kani::proof]
#[kani::stub(std::fmt::format, nofmt)]
#[kani::stub(std::string::String::from_utf8_lossy, nolossy)]
fn lex_cursor_stream_l8() { cursor_ops::<8>(4) }
#[kani::proof]
#[kani::stub(std::fmt::format, nofmt)]
fn lex_cursor_setpos_l3() { cursor_ops::<3>(5) }
#[kani::proof]
#[kani::stub(std::fmt::format, nofmt)]
fn lex_cursor_offset_l3() { cursor_ops::<3>(6) }
#[kani::proof]
#[kani::stub(std::fmt::format, nofmt)]
fn lex_cursor_fromend_l3() { cursor_ops::<3>(7) }
#[kani::proof]
#[kani::stub(std::fmt::format, nofmt)]
fn lex_cursor_readn_l3() { cursor_ops::<3>(8) }
#[kani::proof]
#[kani::stub(std::fmt::format, nofmt)]
#[kani::stub(std::string::String::from_utf8_lossy, nolossy)]
fn lex_cursor_seekback_l4() { cursor_ops::<4>(9) }
#[kani::proof]
#[kani::stub(std::fmt::format, nofmt)]
fn lex_cursor_remaining_l3() { cursor_ops::<3>(10) }
#[kani::proof]
#[kani::stub(std::fmt::format, nofmt)]
fn lex_cursor_seek_l4() { cursor_ops::<4>(12) }

/// next_stream: after the keyword `stream` the data starts after LF or CRLF (ISO 32000-1 §7.3.8.1); a lone CR is invalid
#[kani::proof]
#[kani::stub(std::fmt::format, nofmt)]
fn lex_next_stream_eol() {
    let e: [u8; 2] = kani::any();
    let buf = [b's', b't', b'r', b'e', b'a', b'm', e[0], e[1], b'x'];
    let mut lx = Lexer::new(&buf);
    let r = ok(lx.next_stream());
    // the two legal forms; what happens after anything else (e.g. a lone CR) is not specified by the property
    if e[0] == b'\n' { assert!(r.is_some() && lx.get_pos() == 7); }
    else if e[0] == b'\r' && e[1] == b'\n' { assert!(r.is_some() && lx.get_pos() == 8); }
    else { assert!(lx.get_pos() <= 9); }
}
#[kani::proof]
fn lex_number_class_l11() { number_class::<11>() }
#[kani::proof]
fn lex_number_class_l12() { number_class::<12>() }
