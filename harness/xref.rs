//@ target: pdf/src/xref.rs
// C02: merged cross-reference table = newest section that mentions an id wins (sections are merged newest -> oldest).
use super::*;

fn nofmt(_a: std::fmt::Arguments<'_>) -> String { String::new() }

/// an arbitrary entry as it can come out of a classic table or an xref stream
fn any_xref() -> XRef {
    match kani::any::<u8>() % 3 {
        0 => XRef::Free { next_obj_nr: kani::any(), gen_nr: kani::any() },
        1 => XRef::Raw { pos: kani::any(), gen_nr: kani::any() },
        _ => XRef::Stream { stream_id: kani::any(), index: kani::any() },
    }
}
fn same(a: &XRef, b: &XRef) -> bool {
    match (a, b) {
        (XRef::Free { next_obj_nr: a1, gen_nr: a2 }, XRef::Free { next_obj_nr: b1, gen_nr: b2 }) => a1 == b1 && a2 == b2,
        (XRef::Raw { pos: a1, gen_nr: a2 }, XRef::Raw { pos: b1, gen_nr: b2 }) => a1 == b1 && a2 == b2,
        (XRef::Stream { stream_id: a1, index: a2 }, XRef::Stream { stream_id: b1, index: b2 }) => a1 == b1 && a2 == b2,
        (XRef::Invalid, XRef::Invalid) => true,
        (XRef::Promised, XRef::Promised) => true,
        _ => false,
    }
}
/// generation of an entry as the file states it (compressed objects have generation 0 by definition)
fn gen_of(x: &XRef) -> u64 {
    match x { XRef::Free { gen_nr, .. } | XRef::Raw { gen_nr, .. } => *gen_nr, _ => 0 }
}
/// what the table says about an id. "Missing" has two legitimate representations -- an Invalid entry or an error from
/// get() -- and the property does not distinguish them.
fn lookup(t: &XRefTable, id: u64) -> XRef {
    match t.get(id) { Ok(x) => x, Err(e) => { std::mem::forget(e); XRef::Invalid } }
}
fn is_stream(x: &XRef) -> bool { matches!(x, XRef::Stream { .. }) }
/// well-formedness of a pair (newer, older) of entries for the same number: generation numbers never decrease over time.
/// A compressed entry carries no generation; as the NEWER entry it puts no constraint on what older sections say.
fn ordered(newer: &XRef, older: &XRef) -> bool { is_stream(newer) || gen_of(newer) >= gen_of(older) }
fn merge(t: &mut XRefTable, first_id: u32, entries: Vec<XRef>) -> bool {
    match t.add_entries_from(XRefSection { first_id, entries }) {
        Ok(()) => true,
        Err(e) => { std::mem::forget(e); false }
    }
}

/// history of three sections over one object number; each section may or may not mention the id.
/// Well-formedness assumed (stated in DESIGN §5/C02): generation numbers never decrease over time.
#[kani::proof]
#[kani::stub(std::fmt::format, nofmt)]
fn xref_history_1id_3sections() {
    let mut t = XRefTable::new(1);
    // sections from newest (0) to oldest (2)
    let e = [any_xref(), any_xref(), any_xref()];
    let present: [bool; 3] = [kani::any(), kani::any(), kani::any()];
    kani::assume(ordered(&e[0], &e[1]) && ordered(&e[1], &e[2]) && ordered(&e[0], &e[2]));
    let mut want = XRef::Invalid;
    let mut i = 3;
    while i > 0 { i -= 1; if present[i] { want = e[i]; } }   // newest present section wins
    let mut i = 0;
    while i < 3 {
        if present[i] { assert!(merge(&mut t, 0, vec![e[i]])); }
        else { assert!(merge(&mut t, 0, vec![])); }
        i += 1;
    }
    let got = lookup(&t, 0);
    assert!(same(&got, &want));
    // the sentinel entry past /Size is untouched
    assert!(t.len() == 2);
}

/// two object numbers, newer section defines both, older section of one entry starts at id 0, 1 or 2 (beyond /Size)
#[kani::proof]
#[kani::stub(std::fmt::format, nofmt)]
fn xref_history_2ids() {
    let mut t = XRefTable::new(2);
    let n0 = any_xref(); let n1 = any_xref();
    let old = any_xref();
    let first: u32 = kani::any();
    kani::assume(first <= 3);
    let newer_mentions_1: bool = kani::any();
    kani::assume(ordered(&n0, &old) && ordered(&n1, &old));
    if newer_mentions_1 { assert!(merge(&mut t, 0, vec![n0, n1])); } else { assert!(merge(&mut t, 0, vec![n0])); }
    assert!(merge(&mut t, first, vec![old]));
    let g0 = lookup(&t, 0); let g1 = lookup(&t, 1);
    assert!(same(&g0, &n0));
    if newer_mentions_1 { assert!(same(&g1, &n1)); }
    else if first == 1 { assert!(same(&g1, &old)); }
    else { assert!(same(&g1, &XRef::Invalid)); }
    assert!(t.len() == 3);
}

/// inductive step: from ANY merged state of an id (incl. Invalid) one more (older) entry changes it only if it was Invalid
#[kani::proof]
#[kani::stub(std::fmt::format, nofmt)]
fn xref_merge_step() {
    let mut t = XRefTable::new(1);
    let cur_invalid: bool = kani::any();
    let cur = if cur_invalid { XRef::Invalid } else { any_xref() };
    t.set(0, cur);
    let old = any_xref();
    kani::assume(cur_invalid || ordered(&cur, &old));
    assert!(merge(&mut t, 0, vec![old]));
    let got = lookup(&t, 0);
    if cur_invalid { assert!(same(&got, &old)); } else { assert!(same(&got, &cur)); }
}

/// XRefTable::new / get / set: ids below `size` start Invalid, `size` is the free sentinel, ids beyond are errors (never a panic)
fn table_case(size: u32) {
    let t = XRefTable::new(size as u64);
    let id: u64 = kani::any();
    let r = t.get(id);
    // ids below /Size are "missing" (Invalid entry or an error -- both representations are fine), id == /Size is the free
    // sentinel, ids beyond are errors; never a panic
    let ok = match &r {
        Ok(x) => (id < size as u64 && same(x, &XRef::Invalid)) || (id == size as u64 && matches!(x, XRef::Free { .. })),
        Err(_) => id != size as u64,
    };
    std::mem::forget(r);
    assert!(ok);
    std::mem::forget(t);
}
#[kani::proof]
#[kani::stub(std::fmt::format, nofmt)]
fn xref_table_new_get_s0() { table_case(0) }
#[kani::proof]
#[kani::stub(std::fmt::format, nofmt)]
fn xref_table_new_get_s2() { table_case(2) }

/// byte_len(n) = number of bytes needed for n (1 for 0): the xref-stream writer sizes its fields with it
#[kani::proof]
fn xref_byte_len() {
    let n: u64 = kani::any();
    let w = byte_len(n);
    assert!(w >= 1 && w <= 8);
    assert!(w == 8 || n < (1u64 << (8 * w)));
    assert!(w == 1 || n >= (1u64 << (8 * (w - 1))));
}
