//@ target: pdf/src/parser/lexer/str.rs
// C03: literal strings (escapes, octal codes, line continuations, balanced parentheses) and hexadecimal strings
// (embedded white-space, odd number of digits) decode to the bytes ISO 32000-1 §7.3.4 defines. C01: no panic on any input.
use super::*;

fn nofmt(_a: std::fmt::Arguments<'_>) -> String { String::new() }

/// reference decoder for the text after the opening '(' ; returns (n, bytes, consumed incl. the closing ')').
/// None: the string is not terminated inside the buffer (corrupt / truncated: not part of the claim).
/// `dontcare` is set when the input contains an unescaped CR: the specification normalises raw end-of-line markers
/// to LF, the property does not require that, so such inputs are not compared.
fn lit_ref<const L: usize>(d: &[u8; L], dontcare: &mut bool) -> Option<(usize, [u8; L], usize)> {
    let mut out = [0u8; L];
    let mut n = 0usize;
    let mut i = 0usize;
    let mut depth = 0u32;
    while i < L {
        let c = d[i];
        i += 1;
        if c == b'\\' {
            if i >= L { return None; }
            let e = d[i];
            i += 1;
            let v = match e {
                b'n' => Some(b'\n'), b'r' => Some(b'\r'), b't' => Some(b'\t'), b'b' => Some(8u8), b'f' => Some(12u8),
                b'(' => Some(b'('), b')' => Some(b')'), b'\\' => Some(b'\\'),
                b'\n' => None,
                b'\r' => { if i < L && d[i] == b'\n' { i += 1; } None }
                b'0'..=b'7' => {
                    let mut v = (e - b'0') as u32;
                    let mut k = 0;
                    while k < 2 && i < L && d[i] >= b'0' && d[i] <= b'7' { v = v * 8 + (d[i] - b'0') as u32; i += 1; k += 1; }
                    // a code cut off by the end of the buffer is truncated input
                    if i >= L { return None; }
                    Some((v & 0xff) as u8)
                }
                other => Some(other),     // "the REVERSE SOLIDUS shall be ignored"
            };
            if let Some(v) = v { out[n] = v; n += 1; }
        } else if c == b'(' {
            depth += 1; out[n] = c; n += 1;
        } else if c == b')' {
            if depth == 0 { return Some((n, out, i)); }
            depth -= 1; out[n] = c; n += 1;
        } else {
            if c == b'\r' { *dontcare = true; }
            out[n] = c; n += 1;
        }
    }
    None
}
fn lit_vs_ref<const L: usize>() {
    let buf: [u8; L] = kani::any();
    let mut dontcare = false;
    let want = lit_ref(&buf, &mut dontcare);
    let mut sl = StringLexer::new(&buf);
    let mut got = [0u8; L];
    let mut n = 0usize;
    let mut ended = false;
    let mut k = 0;
    while k <= L {
        match sl.next_lexeme() {
            Ok(Some(b)) => { if n < L { got[n] = b; } n += 1; }
            Ok(None) => { ended = true; break; }
            Err(e) => { std::mem::forget(e); break; }
        }
        k += 1;
    }
    assert!(sl.get_offset() <= L);
    if let Some((wn, w, consumed)) = want {
        if !dontcare {
            assert!(ended);
            assert!(n == wn);
            let q: usize = kani::any();
            assert!(q >= wn || got[q] == w[q]);
            assert!(sl.get_offset() == consumed);
        }
    }
}
#[kani::proof]
#[kani::stub(std::fmt::format, nofmt)]
fn strlex_lit_l1() { lit_vs_ref::<1>() }
#[kani::proof]
#[kani::stub(std::fmt::format, nofmt)]
fn strlex_lit_l2() { lit_vs_ref::<2>() }
#[kani::proof]
#[kani::stub(std::fmt::format, nofmt)]
fn strlex_lit_l3() { lit_vs_ref::<3>() }
#[kani::proof]
#[kani::stub(std::fmt::format, nofmt)]
fn strlex_lit_l4() { lit_vs_ref::<4>() }
#[kani::proof]
#[kani::stub(std::fmt::format, nofmt)]
fn strlex_lit_l5() { lit_vs_ref::<5>() }

/// concrete skeleton "\ddd)" : all octal codes incl. overflow (\400..\777 keep the low 8 bits)
#[kani::proof]
#[kani::stub(std::fmt::format, nofmt)]
fn strlex_octal3() {
    let d: [u8; 3] = kani::any();
    kani::assume(d[0] >= b'0' && d[0] <= b'7' && d[1] >= b'0' && d[1] <= b'7' && d[2] >= b'0' && d[2] <= b'7');
    let buf = [b'\\', d[0], d[1], d[2], b'8', b')'];
    let mut sl = StringLexer::new(&buf);
    let a = sl.next_lexeme(); let b = sl.next_lexeme(); let c = sl.next_lexeme();
    let v = ((d[0] - b'0') as u32 * 64 + (d[1] - b'0') as u32 * 8 + (d[2] - b'0') as u32) & 0xff;
    let ok = matches!(a, Ok(Some(x)) if x as u32 == v) && matches!(b, Ok(Some(b'8'))) && matches!(c, Ok(None)) && sl.get_offset() == 6;
    std::mem::forget(a); std::mem::forget(b); std::mem::forget(c);
    assert!(ok);
}

// ---------------------------------------------------------------------------------------------------------------
fn ws(b: u8) -> bool { matches!(b, 0 | 9 | 10 | 12 | 13 | 32) }
fn hexd(c: u8) -> Option<u8> {
    match c { b'0'..=b'9' => Some(c - b'0'), b'a'..=b'f' => Some(c - b'a' + 10), b'A'..=b'F' => Some(c - b'A' + 10), _ => None }
}
/// reference for the text after '<': None = not a well-formed hex string inside the buffer (not compared)
fn hex_ref<const L: usize>(d: &[u8; L]) -> Option<(usize, [u8; L], usize)> {
    let mut out = [0u8; L];
    let mut n = 0; let mut hi: Option<u8> = None; let mut i = 0;
    while i < L {
        let c = d[i]; i += 1;
        if ws(c) { continue; }
        if c == b'>' {
            if let Some(h) = hi { out[n] = h << 4; n += 1; }
            return Some((n, out, i));
        }
        match hexd(c) {
            None => return None,
            Some(v) => match hi { None => hi = Some(v), Some(h) => { out[n] = (h << 4) | v; n += 1; hi = None; } }
        }
    }
    None
}
fn hex_vs_ref<const L: usize>() {
    let buf: [u8; L] = kani::any();
    let want = hex_ref(&buf);
    let mut hl = HexStringLexer::new(&buf);
    let mut got = [0u8; L];
    let mut n = 0usize; let mut ended = false; let mut k = 0;
    while k <= L {
        match hl.next_hex_byte() {
            Ok(Some(b)) => { if n < L { got[n] = b; } n += 1; }
            Ok(None) => { ended = true; break; }
            Err(e) => { std::mem::forget(e); break; }
        }
        k += 1;
    }
    assert!(hl.get_offset() <= L);
    if let Some((wn, w, consumed)) = want {
        assert!(ended);
        assert!(n == wn);
        let q: usize = kani::any();
        assert!(q >= wn || got[q] == w[q]);
        assert!(hl.get_offset() == consumed);
    }
}
#[kani::proof]
#[kani::stub(std::fmt::format, nofmt)]
fn strlex_hex_l1() { hex_vs_ref::<1>() }
#[kani::proof]
#[kani::stub(std::fmt::format, nofmt)]
fn strlex_hex_l2() { hex_vs_ref::<2>() }
#[kani::proof]
#[kani::stub(std::fmt::format, nofmt)]
fn strlex_hex_l3() { hex_vs_ref::<3>() }
#[kani::proof]
#[kani::stub(std::fmt::format, nofmt)]
fn strlex_hex_l4() { hex_vs_ref::<4>() }

/// one call of next_lexeme from an ARBITRARY lexer state (position, nesting depth) on an arbitrary buffer:
/// inductive step of the literal-string decoder against the reference step function.
/// Reference step: (Some(Some(b)) byte produced | Some(None) string ended | None error/truncated, new pos, new depth)
fn lit_step_ref<const L: usize>(d: &[u8; L], mut i: usize, mut depth: i32) -> (Option<Option<u8>>, usize, i32) {
    loop {
        if i >= L { return (None, i, depth); }
        let c = d[i]; i += 1;
        if c == b'\\' {
            if i >= L { return (None, i, depth); }
            let e = d[i]; i += 1;
            match e {
                b'n' => return (Some(Some(b'\n')), i, depth), b'r' => return (Some(Some(b'\r')), i, depth),
                b't' => return (Some(Some(b'\t')), i, depth), b'b' => return (Some(Some(8)), i, depth),
                b'f' => return (Some(Some(12)), i, depth), b'(' => return (Some(Some(b'(')), i, depth),
                b')' => return (Some(Some(b')')), i, depth), b'\\' => return (Some(Some(b'\\')), i, depth),
                b'\n' => { continue; }
                b'\r' => { if i < L && d[i] == b'\n' { i += 1; } continue; }
                b'0'..=b'7' => {
                    let mut v = (e - b'0') as u32; let mut k = 0;
                    while k < 2 && i < L && d[i] >= b'0' && d[i] <= b'7' { v = v * 8 + (d[i] - b'0') as u32; i += 1; k += 1; }
                    if i >= L && k < 2 { return (None, i, depth); }     // code may continue beyond the buffer: truncated
                    return (Some(Some((v & 0xff) as u8)), i, depth);
                }
                other => return (Some(Some(other)), i, depth),
            }
        } else if c == b'(' { return (Some(Some(c)), i, depth + 1); }
        else if c == b')' { if depth == 0 { return (Some(None), i, depth - 1); } return (Some(Some(c)), i, depth - 1); }
        else { return (Some(Some(c)), i, depth); }
    }
}
fn lit_step<const L: usize>(continuation: bool) { lit_step_at::<L>(continuation, None) }
fn lit_step_at<const L: usize>(continuation: bool, fixed_pos: Option<usize>) {
    let buf: [u8; L] = kani::any();
    let pos: usize = match fixed_pos { Some(p) => p, None => kani::any() };
    let nested: i32 = kani::any();
    kani::assume(pos <= L && nested >= 0 && nested < 1000);
    // next_lexeme calls itself after a line continuation (backslash + end-of-line). The two cases are split so that the
    // recursion can be bounded exactly: without a continuation at `pos` there is no recursive call at all.
    let is_cont = pos + 1 < L && buf[pos] == b'\\' && (buf[pos + 1] == b'\n' || buf[pos + 1] == b'\r');
    kani::assume(is_cont == continuation);
    // a raw (unescaped) CR is an end-of-line marker inside the string: ISO 32000 reads it as LF, this crate keeps the byte;
    // the property does not settle which, so such steps are not compared
    kani::assume(!(pos < L && buf[pos] == b'\r'));
    let (want, wpos, wdepth) = lit_step_ref(&buf, pos, nested);
    let mut sl = StringLexer { pos, nested, buf: &buf };
    let got = sl.next_lexeme();
    assert!(sl.get_offset() <= L);
    if let Some(w) = want {
        let ok = match (&got, w) { (Ok(Some(a)), Some(b)) => *a == b, (Ok(None), None) => true, _ => false };
        assert!(ok);
        assert!(sl.get_offset() == wpos);
        assert!(sl.nested == wdepth);
    }
    std::mem::forget(got);
}
#[kani::proof]
#[kani::stub(std::fmt::format, nofmt)]
fn strlex_lit_step_l2() { lit_step::<2>(false) }
#[kani::proof]
#[kani::stub(std::fmt::format, nofmt)]
fn strlex_lit_step_l3() { lit_step::<3>(false) }
#[kani::proof]
#[kani::stub(std::fmt::format, nofmt)]
fn strlex_lit_step_l4() { lit_step::<4>(false) }
#[kani::proof]
#[kani::stub(std::fmt::format, nofmt)]
fn strlex_lit_step_l5() { lit_step::<5>(false) }
#[kani::proof]
#[kani::stub(std::fmt::format, nofmt)]
fn strlex_lit_step_cont_l4() { lit_step::<4>(true) }
#[kani::proof]
#[kani::stub(std::fmt::format, nofmt)]
fn strlex_lit_step_cont_l3() { lit_step::<3>(true) }
#[kani::proof]
#[kani::stub(std::fmt::format, nofmt)]
fn strlex_lit_step_cont0_l3() { lit_step_at::<3>(true, Some(0)) }

/// C04, the one byte class the reference decoders leave open: a raw (unescaped) CR inside a literal string. ISO 32000 reads it as
/// LF, this crate's reader keeps the byte -- and its writer emits CR raw.  Whatever the two sides choose, they must agree: IF
/// `PdfString::serialize` writes the byte 0x0D raw, THEN one reader step at a raw CR -- from every position and nesting depth, with
/// any byte following -- yields 0x0D and consumes exactly that byte (so CR and CR LF both read back as written).
#[kani::proof]
#[kani::stub(std::fmt::format, nofmt)]
fn strlex_raw_cr_as_written() {
    let ps = crate::primitive::PdfString::new([0x0du8][..].into());
    let mut out: Vec<u8> = Vec::with_capacity(8);
    let r = ps.serialize(&mut out);
    assert!(r.is_ok());
    std::mem::forget(r);
    let writer_raw = out.len() == 3 && out[0] == b'(' && out[1] == 0x0d && out[2] == b')';
    std::mem::forget(out); std::mem::forget(ps);

    let buf: [u8; 3] = kani::any();
    let pos: usize = kani::any();
    let nested: i32 = kani::any();
    kani::assume(pos < 3 && nested >= 0 && nested < 1000);
    kani::assume(buf[pos] == b'\r');
    let mut sl = StringLexer { pos, nested, buf: &buf };
    let got = sl.next_lexeme();
    if writer_raw {
        assert!(matches!(&got, Ok(Some(0x0d))));
        assert!(sl.get_offset() == pos + 1);
        assert!(sl.nested == nested);
    }
    std::mem::forget(got);
}
