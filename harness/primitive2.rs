//@ target: pdf/src/primitive.rs
// C14: every numeric conversion used when typed objects read numeric fields is total over ALL 32-bit integers: negative values
// are errors (never wrapped into huge unsigned numbers), values in range are returned unchanged. No panic.
use super::*;
fn nofmt(_a: std::fmt::Arguments<'_>) -> String { String::new() }
fn okr<T>(r: Result<T>) -> Option<T> { match r { Ok(v) => Some(v), Err(e) => { std::mem::forget(e); None } } }

#[kani::proof]
#[kani::stub(std::fmt::format, nofmt)]
fn prim2_numeric_conversions() {
    let n: i32 = kani::any();
    let p = Primitive::Integer(n);
    assert!(okr(p.as_integer()) == Some(n));
    assert!(okr(p.as_u32()) == if n >= 0 { Some(n as u32) } else { None });
    assert!(okr(p.as_usize()) == if n >= 0 { Some(n as usize) } else { None });
    assert!(okr(p.as_u8()) == if n >= 0 && n <= 255 { Some(n as u8) } else { None });
    assert!(okr(p.as_number()) == Some(n as f32));
    let f: f32 = kani::any();
    kani::assume(!f.is_nan());
    let q = Primitive::Number(f);
    assert!(okr(q.as_number()) == Some(f));
    // (whether an integral real is accepted where an integer is required is left open: only totality is required)
    let _ = (okr(q.as_u32()), okr(q.as_usize()), okr(q.as_integer()));
    std::mem::forget(p); std::mem::forget(q);
}

/// C04 (integers, booleans, null, references): the token Primitive::serialize writes for Integer(i) is an optional '-' followed by
/// decimal digits whose value is i (what the number grammar of ISO 32000-1 §7.3.3 denotes); i ranges over a 16-bit window placed
/// at a symbolic multiple of 2^16 is NOT attempted -- the whole i32 range is one symbolic value here.
fn dec_value(t: &[u8; 12], len: usize) -> Option<i64> {
    if len == 0 { return None; }
    let neg = t[0] == b'-';
    let mut i = if neg { 1 } else { 0 };
    if i >= len { return None; }
    let mut v: i64 = 0;
    while i < len {
        let c = t[i];
        if c < b'0' || c > b'9' { return None; }
        v = v * 10 + (c - b'0') as i64;
        i += 1;
    }
    Some(if neg { -v } else { v })
}
#[kani::proof]
#[kani::stub(std::fmt::format, nofmt)]
fn prim2_integer_ser() { integer_ser(kani::any()) }
/// the same over the 16-bit integers only (at most five digits)
#[kani::proof]
#[kani::stub(std::fmt::format, nofmt)]
fn prim2_integer_ser_i16() { integer_ser(kani::any::<i16>() as i32) }
fn integer_ser(i: i32) {
    let p = Primitive::Integer(i);
    let mut out: Vec<u8> = Vec::with_capacity(12);
    let r = p.serialize(&mut out);
    assert!(r.is_ok());
    std::mem::forget(r);
    assert!(out.len() >= 1 && out.len() <= 11);
    let mut t = [0u8; 12];
    let mut k = 0; while k < out.len() { t[k] = out[k]; k += 1; }
    assert!(dec_value(&t, out.len()) == Some(i as i64));
    std::mem::forget(out); std::mem::forget(p);
}

/// 2^16-wide windows at the interesting places of the i32 range (digit-count boundaries, both ends): base + k, k any u16
#[kani::proof]
#[kani::stub(std::fmt::format, nofmt)]
fn prim2_integer_ser_windows() {
    let k = kani::any::<u16>() as i32;
    integer_ser(i32::MIN + k);
    integer_ser(i32::MAX - k);
    integer_ser(999_990_000 + k);      // 9 -> 10 digits
    integer_ser(-1_000_030_000 + k);   // 10 -> 9 digits, negative
    integer_ser(99_970_000 + k);       // 8 -> 9 digits
    integer_ser(970_000 + k);          // 6 -> 7 digits
}
/// every 24-bit integer
#[kani::proof]
#[kani::stub(std::fmt::format, nofmt)]
fn prim2_integer_ser_i24() {
    let k: i32 = kani::any();
    kani::assume(k >= -(1 << 23) && k < (1 << 23));
    integer_ser(k);
}

/// null and booleans are written as the keywords `null`, `true`, `false`; a reference as `id gen R` (id, gen from 16-bit windows)
#[kani::proof]
#[kani::stub(std::fmt::format, nofmt)]
fn prim2_keyword_ser() {
    let b: bool = kani::any();
    let mut out: Vec<u8> = Vec::with_capacity(8);
    let r = Primitive::Boolean(b).serialize(&mut out);
    assert!(r.is_ok()); std::mem::forget(r);
    if b { assert!(out.len() == 4 && out[0] == b't' && out[1] == b'r' && out[2] == b'u' && out[3] == b'e'); }
    else { assert!(out.len() == 5 && out[0] == b'f' && out[1] == b'a' && out[2] == b'l' && out[3] == b's' && out[4] == b'e'); }
    std::mem::forget(out);
    let mut out: Vec<u8> = Vec::with_capacity(8);
    let r = Primitive::Null.serialize(&mut out);
    assert!(r.is_ok()); std::mem::forget(r);
    assert!(out.len() == 4 && out[0] == b'n' && out[1] == b'u' && out[2] == b'l' && out[3] == b'l');
    std::mem::forget(out);
}
#[kani::proof]
#[kani::stub(std::fmt::format, nofmt)]
fn prim2_reference_ser() {
    let id = kani::any::<u16>() as u64;
    let gen = kani::any::<u8>() as u64;
    let p = Primitive::Reference(PlainRef { id, gen });
    let mut out: Vec<u8> = Vec::with_capacity(12);
    let r = p.serialize(&mut out);
    assert!(r.is_ok()); std::mem::forget(r);
    assert!(out.len() >= 5 && out.len() <= 11);
    // id, one space, gen, one space, R
    let mut t = [0u8; 12]; let mut n = 0; let mut i = 0;
    while i < out.len() && out[i] != b' ' { t[n] = out[i]; n += 1; i += 1; }
    assert!(dec_value(&t, n) == Some(id as i64) && n > 0 && t[0] != b'-');
    assert!(i < out.len() && out[i] == b' '); i += 1;
    let mut t = [0u8; 12]; let mut n = 0;
    while i < out.len() && out[i] != b' ' { t[n] = out[i]; n += 1; i += 1; }
    assert!(dec_value(&t, n) == Some(gen as i64) && n > 0 && t[0] != b'-');
    assert!(i + 2 == out.len() && out[i] == b' ' && out[i + 1] == b'R');
    std::mem::forget(out); std::mem::forget(p);
}
