//@ target: pdf/src/primitive.rs
// C14: every numeric conversion used when typed objects read numeric fields is total over ALL 32-bit integers: negative values
// are errors (never wrapped into huge unsigned numbers), values in range are returned unchanged. No panic.
use super::*;
fn nofmt(_a: std::fmt::Arguments<'_>) -> String { String::new() }
fn okr<T>(r: Result<T>) -> Option<T> { match r { Ok(v) => Some(v), Err(e) => { std::mem::forget(e); None } } }

#[kani::proof]
#[kani::stub(std::fmt::format, nofmt)]
fn prim2_numeric_conversions() {
    let n: i32 = kani::any();
    let p = Primitive::Integer(n);
    assert!(okr(p.as_integer()) == Some(n));
    assert!(okr(p.as_u32()) == if n >= 0 { Some(n as u32) } else { None });
    assert!(okr(p.as_usize()) == if n >= 0 { Some(n as usize) } else { None });
    assert!(okr(p.as_u8()) == if n >= 0 && n <= 255 { Some(n as u8) } else { None });
    assert!(okr(p.as_number()) == Some(n as f32));
    let f: f32 = kani::any();
    kani::assume(!f.is_nan());
    let q = Primitive::Number(f);
    assert!(okr(q.as_number()) == Some(f));
    // (whether an integral real is accepted where an integer is required is left open: only totality is required)
    let _ = (okr(q.as_u32()), okr(q.as_usize()), okr(q.as_integer()));
    std::mem::forget(p); std::mem::forget(q);
}
