#!/usr/bin/env python3
"""Regenerates MANIFEST.json from harness/obligations.py + manifest_meta.py (kept in sync by construction)."""
import json, os, sys
here = os.path.dirname(os.path.abspath(__file__))
sys.path.insert(0, os.path.join(here, "harness"))
import obligations
import manifest_meta as mm

checks = []
claimed = [p for p in obligations.all_props() if p in mm.CLAIMS]
for p in claimed:
    c = mm.CLAIMS[p]
    checks.append({
        "property_id": p,
        "quick_cmd": "bin/check %s quick" % p,
        "thorough_cmd": "bin/check %s thorough" % p,
        "evidence_file": "evidence/%s.json" % p,
        "replay_cmd_template": "bin/replay {path}",
        "engine": c.get("engine", "kdrive"),
        "level_claimed": {"category": "model_checking", "text": c["text"], "design_ref": c["design_ref"]},
        "level_note": c["note"],
        "technique": c["technique"],
    })
na = [{"property_id": p, "reason": r} for p, r in sorted(mm.NOT_APPLICABLE.items()) if p not in claimed]
m = {
    "version": 1,
    "setup_cmd": "bin/setup",
    "hooks": {
        "guard": "cfg(kani) / cfg(verif_replay) -- harness modules are injected into a scratch copy of /repo at run time; "
                 "no guarded code is committed to /repo",
        "enable": "automatic: bin/check rsyncs /repo's working tree to a scratch directory, appends harness/*.rs as "
                  "#[cfg(kani)] child modules and compiles with cargo kani",
        "baseline_off_cmd": "cd /repo && cargo test --workspace --no-fail-fast --offline",
        "source_commits": [],
        "add_only": True,
    },
    "engines": [
        {"name": "kdrive", "path": "kdrive/driver.py", "serves_properties": claimed,
         "kind_free_text": "Kani 0.68 compiler (goto programs from /repo's working tree) + CBMC 6.11 / CaDiCaL bounded model "
                           "checking driven by our own link/cut/unwindset pipeline; counterexamples replayed natively"},
    ] + mm.EXTRA_ENGINES,
    "checks": checks,
    "not_applicable": na,
    "notes": mm.NOTES,
}
json.dump(m, open(os.path.join(here, "MANIFEST.json"), "w"), indent=1)
print("MANIFEST.json: %d checks, %d not applicable" % (len(checks), len(na)))
