"""Per-property claim texts for MANIFEST.json (see DESIGN.md §5 for the full scope statements)."""

BMC = "bounded model checking (Kani goto program of the real code + CBMC/CaDiCaL), differential against a spec-derived reference model"
NOTE = ("Trusted: rustc/Kani 0.68 codegen, CBMC 6.11, CaDiCaL, the reference models in harness/*.rs, cuts X1-X10 of DESIGN.md §4 "
        "(drop glue of PdfError & co. emptied, fmt::format stubbed). Holds only inside the per-obligation bounds listed in the evidence "
        "file; everything named 'Out' in DESIGN.md §5 is outside the claim.")

CLAIMS = {
    "C02": dict(
        text="For all entry kinds, generations, positions and stream ids the merged cross-reference table keeps the entry of the "
             "newest section that mentions an object number (histories of 3 sections over 1 id, 2 sections over 2 ids, plus an "
             "inductive step from an arbitrary merged state), and xref-stream rows decode to the entry kinds/fields the spec "
             "defines for every byte value. Decided by the solver over all values; /Prev chain walking and textual tables are Out.",
        design_ref="§5 C02", note=NOTE, technique=BMC),
    "C05": dict(
        text="For every input inside the bounds the real ASCIIHex, ASCII85 and RunLength decoders return what a reference decoder "
             "written from ISO 32000-1 returns whenever that accepts the input, never panic otherwise; PNG un-prediction equals "
             "the PNG-spec reconstruction for all rows/filters/previous rows, Paeth for all 2^24 triples; flate_decode geometry is "
             "checked on concrete parameter tuples with symbolic pixel data through a stored deflate block. Deflate/LZW bit streams, "
             "filter chains and parameter parsing are Out.",
        design_ref="§5 C05", note=NOTE, technique=BMC),
}

NOT_APPLICABLE = {
    "C09": "needs save -> bytes -> reload through serializer, parser and Dictionary: not encodable (parser::parse on 2 symbolic bytes "
           "does not finish in CBMC); the in-memory read-your-writes step did not terminate either (DESIGN §5 C09)",
    "C10": "builder output validity needs whole-file serialisation and parsing; only the xref-stream writer/reader inverse is "
           "encodable and is reported under C02",
    "C12": "call sequences over Storage with globalcache::SyncCache (threads, condvars, HashMap) and typed loads are not encodable",
    "C13": "Kani/CBMC do not model Rust threads; an SMT model of the guard protocol would not be the real code",
    "C15": "derived readers/writers operate on Dictionary (IndexMap/hashbrown); the smallest model did not finish in 15 min",
    "C17": "every consumer of start_offset except the header search sits behind File::load / resolve_ref / scan",
    "C20": "deep clone through Cloner, resource maps, save and reload: whole-document object graphs",
}
# properties planned but not yet registered are listed as not applicable until their check exists
PENDING = {
    "C19": "check under construction in this round (kernel-level obligations per DESIGN.md §5); not claimed until it discharges",
    "C18": "check under construction in this round (kernel-level obligations per DESIGN.md §5); not claimed until it discharges",
    "C16": "check under construction in this round (kernel-level obligations per DESIGN.md §5); not claimed until it discharges",
    "C14": "check under construction in this round (kernel-level obligations per DESIGN.md §5); not claimed until it discharges",
    "C11": "check under construction in this round (kernel-level obligations per DESIGN.md §5); not claimed until it discharges",
    "C08": "check under construction in this round (kernel-level obligations per DESIGN.md §5); not claimed until it discharges",
    "C07": "check under construction in this round (kernel-level obligations per DESIGN.md §5); not claimed until it discharges",
    "C06": "check under construction in this round (kernel-level obligations per DESIGN.md §5); not claimed until it discharges",
    "C04": "check under construction in this round (kernel-level obligations per DESIGN.md §5); not claimed until it discharges",
    "C03": "check under construction in this round (kernel-level obligations per DESIGN.md §5); not claimed until it discharges",
    "C01": "check under construction in this round (kernel-level obligations per DESIGN.md §5); not claimed until it discharges",
}
NOT_APPLICABLE.update(PENDING)

EXTRA_ENGINES = []
NOTES = ("Solver-based checking only. Exit codes of bin/check: 0 = every registered obligation discharged (all CBMC properties incl. "
         "unwinding assertions SUCCESS, vacuity witnesses reachable); 1 = a counterexample was found AND reproduced natively "
         "(VIOLATION line); 2 = inconclusive (timeout, out of memory, harness no longer compiles, counterexample did not reproduce).")
