"""Per-property claim texts for MANIFEST.json (see DESIGN.md §5 for the full scope statements)."""

BMC = "bounded model checking (Kani goto program of the real code + CBMC/CaDiCaL), differential against a spec-derived reference model"
BMC_M = BMC + "; plus MIR -> SMT-LIB2 (cvc5 --solve-bv-as-int=sum) for the ASCII85 group inverse over all 2^32 groups"
NOTE = ("Trusted: rustc/Kani 0.68 codegen, CBMC 6.11, CaDiCaL, the reference models in harness/*.rs, cuts X1-X10 of DESIGN.md §4 "
        "(drop glue of PdfError & co. emptied, fmt::format stubbed). Holds only inside the per-obligation bounds listed in the evidence "
        "file; everything named 'Out' in DESIGN.md §5 is outside the claim.")

CLAIMS = {
    "C01": dict(
        text="Panic-freedom and cursor safety of the byte-level kernels that touch raw document bytes, for ALL buffers inside the "
             "bounds: every Lexer cursor operation from every start position keeps pos <= len and does not panic or loop past the "
             "input; ASCII85 / RunLength / ASCIIHex decoders, xref-stream row decoding and its size arithmetic, XRefTable lookups. "
             "Partial: everything above the lexer (object parser, File::load, typed loading) is Out -- CBMC cannot execute "
             "parser::parse on even one symbolic byte in this crate.",
        design_ref="§5 C01", note=NOTE, technique=BMC),
    "C02": dict(
        text="For all entry kinds, generations, positions and stream ids the merged cross-reference table keeps the entry of the "
             "newest section that mentions an object number (histories of 3 sections over 1 id, 2 sections over 2 ids, plus an "
             "inductive step from an arbitrary merged state), and xref-stream rows decode to the entry kinds/fields the spec "
             "defines for every byte value. Decided by the solver over all values; /Prev chain walking and textual tables are Out.",
        design_ref="§5 C02", note=NOTE, technique=BMC),
    "C03": dict(
        text="Token level only: for every buffer inside the bounds Lexer::next/peek return exactly the token (range and cursor) a "
             "reference tokenizer written from ISO 32000-1 §7.2 returns (white-space set, delimiters, comments, <<, >>, names), "
             "twice in a row; integer/real classification equals the §7.3.3 grammar for every regular token; hex strings decode as "
             "the reference decoder says; 'stream' EOL handling. Object-level parsing (#xx names, n g R look-ahead, containers) is Out.",
        design_ref="§5 C03", note=NOTE, technique=BMC),
    "C04": dict(
        text="Strings, names and (inside windows) integers, by composition: (a) for every byte string up to the bound the token PdfString::serialize "
             "writes is decoded to the same bytes by a reference literal/hex string decoder, and for every ASCII name of 1-2 characters "
             "(and every 2-byte UTF-8 character) serialize_name writes a token of regular characters whose #xx decoding is the name; "
             "serialising never panics; (b) the real string lexers agree with the same reference decoders (C03 obligations strlex_*); "
             "(c) for the one byte class the references leave open -- a raw CR inside a literal string -- writer and reader are "
             "checked against each other: if the writer emits CR raw, one reader step at a raw CR returns CR from every lexer state. "
             "(d) Integer(i) is written as an optional '-' and decimal digits of value i for every 16-bit integer (thorough: every "
             "24-bit integer and six 2^16 windows at both ends of the i32 range and at digit-count boundaries); true / false / null "
             "are written as those keywords; references as 'id gen R' (thorough, small ids). "
             "Reals, integers outside the windows, arrays, dictionaries, streams and the '#xx' decoding inside the object parser are Out.",
        design_ref="§5 C04", note=NOTE, technique=BMC + " (serializer vs reference decoder; composition with the lexer-vs-reference obligations)"),
    "C05": dict(
        text="For every input inside the bounds the real ASCIIHex, ASCII85 and RunLength decoders return what a reference decoder "
             "written from ISO 32000-1 returns whenever that accepts the input, never panic otherwise; PNG un-prediction equals "
             "the PNG-spec reconstruction for all rows/filters/previous rows, Paeth for all 2^24 triples; flate_decode geometry is "
             "checked on concrete parameter tuples with symbolic pixel data through a stored deflate block. Deflate/LZW bit streams, "
             "filter chains and parameter parsing are Out.",
        design_ref="§5 C05", note=NOTE, technique=BMC_M),
    "C06": dict(
        text="Per-object key material of Algorithm 1/1.A for every file key, key size, object number and generation: exactly "
             "key[..n] || id[0..3] || gen[0..2] (|| 'sAlT') is hashed and the first min(n+5,16) digest bytes key the cipher; "
             "/Encrypt-object and (only with EncryptMetadata false) metadata strings are exempt and untouched; cipher key length "
             "is 32 for AES-256; short AES data is an error. MD5/RC4 are recording stubs: what is FED to them is decided by the "
             "solver; password verification and the KDFs are Out.",
        design_ref="§5 C06", note=NOTE, technique=BMC + "; hash/cipher cores replaced by recording stubs"),
    "C07": dict(
        text="Inheritance clause only: for every presence pattern of MediaBox / CropBox / Resources over a page and its ancestors "
             "(2^8 resp. 2^3 patterns, real Page/PageTree/PagesRc values) media_box, crop_box (with fall-back to the media box) "
             "and resources return the page's own entry, else the nearest ancestor's. The page-number descent (page i = i-th "
             "leaf) could NOT be decided: every tree shape exhausted 12 GB / 27 min in CBMC (typed nodes live in large Arc "
             "allocations that are not constant-propagated) -- it is Out and a defect there is not detected.",
        design_ref="§5 C07", note=NOTE, technique=BMC),
    "C08": dict(
        text="Parser half: for every operator keyword of ISO 32000-1 Table 51 (except BI/ID/EI, d0/d1, BX/EX) the real dispatch "
             "OpBuilder::add, given well-formed operands with ARBITRARY finite real or integer values, yields exactly the "
             "operation(s) the table defines with operands in order, incl. the expansions b, b*, s, ', \", TD, y and v (v for an "
             "arbitrary current point; m/l/c/v/y proven to leave their end point there; re proven to leave it alone). The "
             "serializer (shorthand selection, number formatting) and content-stream tokenisation are Out.",
        design_ref="§5 C08", note=NOTE, technique=BMC),
    "C11": dict(
        text="Object-stream member slicing only: for every /First, every increasing offset table (1..3 members) and every index the "
             "byte range handed to the parser for member i is [first+off_i, first+off_{i+1}), the last member running to the end of "
             "the data, and an index >= N is ObjStmOutOfBounds. The defect class the property is mainly about -- the top-level parse "
             "of a member slice (bare integer at end of buffer) and indirect /Length -- lives in the object parser, which is beyond "
             "the engine: Out, a change there is not detected.",
        design_ref="§5 C11", note=NOTE, technique=BMC),
    "C14": dict(
        text="Numeric-extreme clause on the kernels that can be encoded: arbitrary usize object-stream offsets, xref-stream field "
             "widths / counts (incl. /W [0 0 0]), byte_len, read_u64 widths, ragged predictor rows, short AES data: each returns a "
             "value or an error for EVERY value of the numeric fields -- no panic, no unbounded loop (unwinding assertions). "
             "Function objects: the PostScript calculator PsFunc::exec on stacks of 0..3 numbers (every operator; 'index' for every "
             "f32 operand; 'roll' for every small concrete count/amount shape with symbolic values and for every f32 count beyond "
             "the stack) and SampledFunction::apply with 1 and 2 inputs for every f32 /Domain, /Encode, /Decode, u32 /Size and "
             "argument: a value or an error. "
             "Reference cycles through typed loading, /Prev loops, parser nesting depth and symbolic predictor geometry are Out "
             "(measured: out of memory).",
        design_ref="§5 C14", note=NOTE, technique=BMC),
    "C16": dict(
        text="ASCIIHex: decode_hex(encode_hex(d)) == d and the output is accepted with the same result by the reference decoder, "
             "for all d up to the bound. ASCII85: the encoder's output for every input up to the bound is accepted by a reference "
             "decoder (written from the Adobe definition) and yields the input, and decode_85 agrees with that reference decoder "
             "on every such text -- composition gives the round trip; word_85 inverts the base-85 digits for all 2^40 groups; "
             "concrete word shapes around the all-zero shorthand 'z' with one symbolic byte. "
             "Flate and LZW encoders are Out (the deflate compressor over symbolic data is not encodable).",
        design_ref="§5 C16", note=NOTE, technique=BMC_M),
    "C18": dict(
        text="Option reader only: for the scalar readers (i32, f32, bool, Name, Rectangle) and for RcRef / MaybeRef, an optional "
             "entry that is a reference to a free or never-defined object (every object number and generation) reads as None in "
             "strict and in tolerant mode. The resolver is a stand-in that returns the error values the real Storage::resolve_ref / "
             "StorageResolver::get return for such references (bare FreeObject / NullRef, resp. Shared{..}) -- an assumption taken "
             "from reading the code, because the real resolver could not be executed symbolically. Derived struct readers, Vec "
             "elements and required-entry error naming are Out.",
        design_ref="§5 C18", note=NOTE + " Assumption A5: error shapes of the real resolver as read from file.rs.", technique=BMC),
    "C19": dict(
        text="Width table only: one insertion step from every table state of the bounded family (first_char 0..5, 0..3 entries, "
             "code 0..8; entries, default and width symbolic) sets exactly the inserted code and leaves every other code unchanged, "
             "hence insertion order cannot matter; get() is the simple-font rule for every first_char/code in usize; one array-form "
             "/W group applied as Font::widths applies it (ensure_cid, then set per element) and one range-form group (set per code), each on "
             "6 concrete table/group shapes. "
             "ToUnicode: only the code tokens -- write_cid writes '<HHHH>' for every u16, parse_cid reads 1- and 2-byte codes big "
             "endian. /W array interpretation inside Font::widths and character maps at map level (write_cmap, parse_cmap) are Out.",
        design_ref="§5 C19", note=NOTE, technique=BMC),
}

NOT_APPLICABLE = {
    "C09": "needs save -> bytes -> reload through serializer, parser and Dictionary: not encodable (parser::parse on 2 symbolic bytes "
           "does not finish in CBMC); the in-memory read-your-writes step did not terminate either (DESIGN §5 C09)",
    "C10": "builder output validity needs whole-file serialisation and parsing; even the xref-stream writer/reader inverse lemma ran "
           "out of solver memory (symbolic field widths), see DESIGN §5",
    "C12": "call sequences over Storage with globalcache::SyncCache (threads, condvars, HashMap) and typed loads are not encodable",
    "C13": "Kani/CBMC do not model Rust threads; an SMT model of the guard protocol would not be the real code",
    "C15": "derived readers/writers operate on Dictionary (IndexMap/hashbrown); the smallest model did not finish in 15 min",
    "C17": "every consumer of start_offset except the header search sits behind File::load / resolve_ref / scan",
    "C20": "deep clone through Cloner, resource maps, save and reload: whole-document object graphs",
}
# properties planned but not yet registered are listed as not applicable until their check exists
PENDING = {
}
NOT_APPLICABLE.update(PENDING)

EXTRA_ENGINES = [
    {"name": "mir2smt", "path": "mir2smt/m2s.py", "serves_properties": ["C05", "C16"],
     "kind_free_text": "optimized MIR of /repo's current tree (cargo +nightly rustc -Zunpretty=mir) translated path-wise to SMT-LIB2 "
                       "bit-vectors, decided by cvc5 1.0 --solve-bv-as-int=sum (z3 as time-boxed second opinion); used for the "
                       "loop-free divide/multiply-by-85 kernels that bit-blasting cannot decide; translator validated on every run "
                       "against the repository's own test vectors and, when those change, against the native build"},
]
NOTES = ("Solver-based checking only. Exit codes of bin/check: 0 = every registered obligation discharged (all CBMC properties incl. "
         "unwinding assertions SUCCESS, vacuity witnesses reachable); 1 = a counterexample was found AND reproduced natively "
         "(VIOLATION line); 2 = inconclusive (timeout, out of memory, harness no longer compiles, counterexample did not reproduce).")
