#!/bin/bash
# usage: k.sh <harness> [timeout_s] [extra kani args...]
h=$1; t=${2:-300}; shift; shift
cd /tmp/pv/work/pdf
start=$(date +%s.%N)
CARGO_NET_OFFLINE=true timeout $t cargo kani --harness "$h" --target-dir /tmp/pv/kt "$@" > /tmp/pv/log.$h 2>&1
rc=$?
end=$(date +%s.%N)
echo "== $h rc=$rc wall=$(echo "$end - $start" | bc)"
grep -E "VERIFICATION|Failed Checks|^Check .*\n|Status: FAILURE|unwinding|Verification Time|error(\[|:)|SUCCESSFUL|Complete" /tmp/pv/log.$h | sort | uniq -c | sort -rn | head -15
