#!/bin/bash
# usage: CUT='regex of types' cb.sh <harness> <unwind> [timeout] [extra cbmc args]
h=$1; u=$2; t=${3:-600}; shift; shift; shift
CUT=${CUT:-error::PdfError}
st=$(ls -t /tmp/pv/kt/kani/x86_64-unknown-linux-gnu/debug/build/pdf/*/out/*verif_probe*[0-9]$h.symtab.out | head -1)
fn=$(basename $st .symtab.out | sed 's/^pdf-[0-9a-f]*_//')
o=/tmp/pv/cb_$h.out
goto-cc $st /root/.kani/kani-0.68.0/library/kani/kani_lib.c -o $o >/dev/null 2>&1
goto-cc $o --function $fn -o $o >/dev/null 2>&1
goto-instrument --add-library --no-malloc-may-fail $o $o >/dev/null 2>&1
goto-instrument --generate-function-body-options assert-false-assume-false --generate-function-body '.*' --drop-unused-functions $o $o >/dev/null 2>&1
goto-instrument --ensure-one-backedge-per-target $o $o >/dev/null 2>&1
syms=$(goto-instrument --list-goto-functions $o 2>/dev/null | grep -E "^std::ptr::drop_glue::<($CUT)> " | sed 's/.*\/\* \(.*\) \*\//\1/')
for s in $syms; do
  goto-instrument --remove-function-body $s $o $o >/dev/null 2>&1
  goto-instrument --generate-function-body "$s" --generate-function-body-options nothing $o $o >/dev/null 2>&1
done
echo "cut: $(echo $syms | wc -w) drop-glue bodies"
start=$(date +%s.%N)
timeout $t cbmc --no-malloc-may-fail --no-undefined-shift-check --no-signed-overflow-check --no-self-loops-to-assumptions --no-pointer-primitive-check --object-bits 16 --sat-solver cadical --slice-formula --unwind $u --unwinding-assertions --verbosity 8 "$@" $o > /tmp/pv/cblog.$h 2>&1
rc=$?
end=$(date +%s.%N)
echo "== $h rc=$rc wall=$(echo "$end - $start" | bc) symex=$(grep 'Runtime Symex' /tmp/pv/cblog.$h | sed 's/.*: //') vars=$(grep -m1 variables /tmp/pv/cblog.$h) solver_total=$(grep 'Runtime decision' /tmp/pv/cblog.$h | sed 's/.*: //;s/s//' | paste -sd+ | bc)"
grep -E "^\[.*(FAILURE)$" /tmp/pv/cblog.$h | grep -v reachability_check | head -10 | cut -c1-220
grep -E "verif_probe.*assertion.*(SUCCESS|FAILURE)$" /tmp/pv/cblog.$h | cut -c1-170 | head -8
grep -E "^\*\* [0-9]|VERIFICATION" /tmp/pv/cblog.$h
