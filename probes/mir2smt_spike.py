#!/usr/bin/env python3
"""Spike: optimized-MIR (text) -> SMT-LIB for loop-free integer functions. Path-wise symbolic execution."""
import re, sys, subprocess, itertools

MIR = open('/tmp/pv/pdf_opt.mir').read()

def get_fn(name):
    m = re.search(r'^fn ' + re.escape(name) + r'\((.*?)\) -> (.*?) \{\n(.*?)^\}', MIR, re.S | re.M)
    assert m, name
    params = re.findall(r'(_\d+): ([^,]+(?:\[[^\]]*\])?)', m.group(1))
    body = m.group(3)
    locs = dict(re.findall(r'let (?:mut )?(_\d+): ([^;]+);', body))
    for p, t in params: locs[p] = t.strip()
    locs['_0'] = m.group(2).strip()
    blocks = {}
    for bm in re.finditer(r'^    (bb\d+)(?: \(cleanup\))?: \{\n(.*?)^    \}', body, re.S | re.M):
        blocks[bm.group(1)] = [l.strip() for l in bm.group(2).strip().split('\n') if l.strip()]
    return dict(name=name, params=[p for p, _ in params], locs=locs, blocks=blocks)

W = {'u8': 8, 'u16': 16, 'u32': 32, 'u64': 64, 'usize': 64, 'i16': 16, 'i32': 32, 'isize': 64, 'i64': 64}
def bv(v, w): return '(_ bv%d %d)' % (v % (1 << w), w)

class Val:  # ('bv', term, w, signed) | ('bool', term) | ('tup', [vals]) | ('enum', disc_term, {variant:[vals]})
    pass

VAR_DISC = {'None': 0, 'Some': 1, 'Ok': 0, 'Err': 1, 'Continue': 0, 'Break': 1}

def const(tok):
    m = re.match(r'const (-?\d+)_(\w+)$', tok)
    if m: return ('bv', bv(int(m.group(1)), W[m.group(2)]), W[m.group(2)], m.group(2)[0] == 'i')
    if tok in ('const true', 'const false'): return ('bool', tok.split()[1])
    m = re.match(r'const (?:std::\w+::)*(\w+)::<.*>::(None)$', tok)
    if m: return ('enum', bv(0, 64), {})
    return ('opaque', tok)

class Exec:
    def __init__(self): self.oblig = []  # (pc, cond) assert obligations
    def place_get(self, env, p):
        p = p.strip()
        m = re.match(r'^(?:copy |move )?(.*)$', p); p = m.group(1)
        if p.startswith('const '): return const(p)
        m = re.match(r'^\(\((_\d+) as (\w+)\)\.(\d+): [^)]+\)$', p)
        if m: return env[m.group(1)][2][m.group(2)][int(m.group(3))]
        m = re.match(r'^\((_\d+)\.(\d+): [^)]+\)$', p)
        if m: return env[m.group(1)][1][int(m.group(2))]
        m = re.match(r'^(_\d+)\[(\d+) of \d+\]$', p)
        if m: return env[m.group(1)][1][int(m.group(2))]
        return env[p]
    def rvalue(self, env, rv, ty, pc):
        g = lambda x: self.place_get(env, x)
        m = re.match(r'^(\w+)\((.*), (.*)\)$', rv)
        if m and m.group(1) in ('Le', 'Lt', 'Ge', 'Gt', 'Eq', 'Ne', 'Div', 'Rem', 'Add', 'Sub', 'Mul', 'AddWithOverflow', 'SubWithOverflow', 'MulWithOverflow', 'BitAnd', 'BitOr', 'Shl', 'Shr'):
            op, a, b = m.group(1), g(m.group(2)), g(m.group(3))
            w, s = a[2], a[3]
            cmpo = {'Le': 'bvsle' if s else 'bvule', 'Lt': 'bvslt' if s else 'bvult', 'Ge': 'bvsge' if s else 'bvuge', 'Gt': 'bvsgt' if s else 'bvugt'}
            if op in cmpo: return ('bool', '(%s %s %s)' % (cmpo[op], a[1], b[1]))
            if op == 'Eq': return ('bool', '(= %s %s)' % (a[1], b[1]))
            if op == 'Ne': return ('bool', '(not (= %s %s))' % (a[1], b[1]))
            ar = {'Div': 'bvsdiv' if s else 'bvudiv', 'Rem': 'bvsrem' if s else 'bvurem', 'Add': 'bvadd', 'Sub': 'bvsub', 'Mul': 'bvmul', 'BitAnd': 'bvand', 'BitOr': 'bvor'}
            if op in ar: return ('bv', '(%s %s %s)' % (ar[op], a[1], b[1]), w, s)
            base = op[:3]
            assert not s, 'signed overflow ops not in spike'
            ext = lambda t: '((_ zero_extend %d) %s)' % (w, t)
            wide = '(%s %s %s)' % ({'Add': 'bvadd', 'Sub': 'bvsub', 'Mul': 'bvmul'}[base], ext(a[1]), ext(b[1]))
            res = '((_ extract %d 0) %s)' % (w - 1, wide)
            if base == 'Sub': ovf = '(bvult %s %s)' % (a[1], b[1])
            else: ovf = '(not (= ((_ extract %d %d) %s) %s))' % (2 * w - 1, w, wide, bv(0, w))
            return ('tup', [('bv', res, w, s), ('bool', ovf)])
        m = re.match(r'^(.*) as (\w+) \(IntToInt\)$', rv)
        if m:
            a = g(m.group(1)); w2 = W[m.group(2)]; s2 = m.group(2)[0] == 'i'
            if w2 == a[2]: t = a[1]
            elif w2 < a[2]: t = '((_ extract %d 0) %s)' % (w2 - 1, a[1])
            else: t = '((_ %s %d) %s)' % ('sign_extend' if a[3] else 'zero_extend', w2 - a[2], a[1])
            return ('bv', t, w2, s2)
        m = re.match(r'^(.*) as (.*) \(Transmute\)$', rv)
        if m:
            a = g(m.group(1)); to = m.group(2)
            if a[0] == 'tup' and to in W:   # [u8;N] -> uN, little endian memory
                return ('bv', '(concat %s)' % ' '.join(x[1] for x in reversed(a[1])), W[to], False)
            am = re.match(r'\[u8; (\d+)\]', to)
            if a[0] == 'bv' and am:
                return ('tup', [('bv', '((_ extract %d %d) %s)' % (8 * i + 7, 8 * i, a[1]), 8, False) for i in range(int(am.group(1)))])
            raise NotImplementedError(rv)
        m = re.match(r'^\[(.*)\]$', rv)
        if m: return ('tup', [g(x) for x in m.group(1).split(', ')])
        m = re.match(r'^discriminant\((_\d+)\)$', rv)
        if m: return ('bv', env[m.group(1)][1], 64, True)
        m = re.match(r'^(?:std::\w+::)*(\w+)::<.*>::(\w+)\((.*)\)$', rv)
        if m and m.group(2) in VAR_DISC:
            return ('enum', bv(VAR_DISC[m.group(2)], 64), {m.group(2): [g(x) for x in m.group(3).split(', ')]})
        m = re.match(r'^(?:std::\w+::)*(\w+)::<.*>::(None)$', rv)
        if m: return ('enum', bv(0, 64), {})
        return g(rv)
    def run(self, fn, args, pc='true'):
        """yield (pc, retval)"""
        f = get_fn(fn)
        env0 = dict(zip(f['params'], args))
        for l, t in f['locs'].items():
            if 'Option<std::convert::Infallible>' in t and l not in env0: env0[l] = ('enum', bv(0, 64), {})
        stack = [('bb0', env0, pc)]
        out = []
        while stack:
            bb, env, pc = stack.pop()
            env = dict(env)
            stmts = f['blocks'][bb]
            for st in stmts[:-1]:
                st = st.rstrip(';')
                if st.startswith(('StorageLive', 'StorageDead', 'nop')): continue
                m = re.match(r'^assume\((.*)\)$', st)
                if m: pc = '(and %s %s)' % (pc, self.place_get(env, m.group(1))[1]); continue
                lhs, rhs = st.split(' = ', 1)
                env[lhs] = self.rvalue(env, rhs, f['locs'].get(lhs), pc)
            t = stmts[-1].rstrip(';')
            if t == 'return': out.append((pc, env['_0'])); continue
            if t == 'unreachable': continue
            m = re.match(r'^goto -> (bb\d+)$', t)
            if m: stack.append((m.group(1), env, pc)); continue
            m = re.match(r'^switchInt\((.*)\) -> \[(.*)\]$', t)
            if m:
                v = self.place_get(env, m.group(1)); arms = m.group(2).split(', '); taken = []
                lit = re.match(r'^\(_ bv(\d+) \d+\)$', v[1]) if v[0] == 'bv' else None
                if lit:
                    val = int(lit.group(1)); tgt = None
                    for a in arms:
                        k, t2 = a.split(': ')
                        if k != 'otherwise' and int(k) == val: tgt = t2
                    if tgt is None: tgt = [a.split(': ')[1] for a in arms if a.startswith('otherwise')][0]
                    stack.append((tgt, env, pc)); continue
                for a in arms:
                    k, tgt = a.split(': ')
                    if k == 'otherwise':
                        c = '(and true %s)' % ' '.join('(not %s)' % x for x in taken) if taken else 'true'
                    else:
                        c = ('(= %s %s)' % (v[1], bv(int(k), v[2]))) if v[0] == 'bv' else (('(not %s)' % v[1]) if k == '0' else v[1])
                        taken.append(c)
                    stack.append((tgt, env, '(and %s %s)' % (pc, c)))
                continue
            m = re.match(r'^assert\((!?)(.*?), ".*\) -> \[success: (bb\d+), unwind continue\]$', t)
            if m:
                c = self.place_get(env, m.group(2))[1]
                if m.group(1): c = '(not %s)' % c
                self.oblig.append((pc, c))
                stack.append((m.group(3), env, '(and %s %s)' % (pc, c))); continue
            m = re.match(r'^(_\d+) = bswap::<u(\d+)>\((.*)\) -> \[return: (bb\d+), unwind unreachable\]$', t)
            if m:
                a = self.place_get(env, m.group(3)); n = int(m.group(2)) // 8
                env[m.group(1)] = ('bv', '(concat %s)' % ' '.join('((_ extract %d %d) %s)' % (8 * i + 7, 8 * i, a[1]) for i in range(n)), a[2], False)
                stack.append((m.group(4), env, pc)); continue
            m = re.match(r'^(_\d+) = (\w+)\((.*)\) -> \[return: (bb\d+), unwind continue\]$', t)
            if m:
                argv = [self.place_get(env, x) for x in m.group(3).split(', ')]
                for pc2, rv in self.run(m.group(2), argv, pc):
                    e2 = dict(env); e2[m.group(1)] = rv
                    stack.append((m.group(4), e2, pc2))
                continue
            raise NotImplementedError(t)
        return out

if __name__ == '__main__':
    ex = Exec()
    c = [('bv', 'c%d' % i, 8, False) for i in range(4)]
    decls = ''.join('(declare-const c%d (_ BitVec 8))\n' % i for i in range(4))
    enc_paths = ex.run('base85_chunk', [('tup', c)])
    viol = []
    npaths = 0
    for pc, e in enc_paths:
        for pc2, r in ex.run('word_85', [e], pc):
            npaths += 1
            # property: r is Some(c)
            is_some = '(= %s %s)' % (r[1], bv(1, 64))
            if 'Some' in r[2]:
                arr = r[2]['Some'][0][1]
                eq = '(and %s)' % ' '.join('(= %s c%d)' % (arr[i][1], i) for i in range(4))
                viol.append('(and %s (not (and %s %s)))' % (pc2, is_some, eq))
            else:
                viol.append(pc2)  # returning None is a violation
    for pc, cnd in ex.oblig: viol.append('(and %s (not %s))' % (pc, cnd))
    smt = '(set-logic ALL)\n' + decls + '(assert (or %s))\n(check-sat)\n' % '\n '.join(viol)
    open('/tmp/pv/m2s/q.smt2', 'w').write(smt)
    print('paths', npaths, 'obligations', len(ex.oblig), 'smt bytes', len(smt))
    import time
    for cmd in (['cvc5', '--lang', 'smt2', '--solve-bv-as-int=sum', '/tmp/pv/m2s/q.smt2'],):
        t = time.time(); r = subprocess.run(cmd, capture_output=True, text=True, timeout=300); print(cmd[0], r.stdout.strip(), r.stderr.strip()[:200], '%.2fs' % (time.time() - t))
