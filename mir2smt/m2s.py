#!/usr/bin/env python3
"""Engine M: optimized MIR (text, from /repo's current tree) -> SMT-LIB2 for loop-free integer kernels, decided by cvc5 with
--solve-bv-as-int=sum (bit-blasting cannot decide the divide/multiply-by-85 kernels: CBMC+CaDiCaL no answer in 20 min).

Path-wise symbolic execution of the acyclic CFG: scalars are bit-vectors, arrays/tuples are lists, Option/Result/ControlFlow are
(discriminant, payload); `switchInt` forks with path conditions; overflow `assert`s become proof obligations; calls to other
translated functions are inlined; every assigned value is bound with define-fun (term sharing).
"""
import json, os, re, subprocess, sys, time

W = {'u8': 8, 'u16': 16, 'u32': 32, 'u64': 64, 'usize': 64, 'i8': 8, 'i16': 16, 'i32': 32, 'isize': 64, 'i64': 64}
VAR_DISC = {'None': 0, 'Some': 1, 'Ok': 0, 'Err': 1, 'Continue': 0, 'Break': 1}


def bv(v, w):
    return '(_ bv%d %d)' % (v % (1 << w), w)


class Mir:
    def __init__(self, path):
        self.text = open(path).read()
        self.cache = {}

    def get_fn(self, name):
        if name in self.cache:
            return self.cache[name]
        m = re.search(r'^fn ' + re.escape(name) + r'\((.*?)\) -> (.*?) \{\n(.*?)^\}', self.text, re.S | re.M)
        if not m:
            raise KeyError('MIR function not found: ' + name)
        params = re.findall(r'(_\d+): ([^,]+(?:\[[^\]]*\])?)', m.group(1))
        body = m.group(3)
        locs = dict(re.findall(r'let (?:mut )?(_\d+): ([^;]+);', body))
        for p, t in params:
            locs[p] = t.strip()
        locs['_0'] = m.group(2).strip()
        blocks = {}
        for bm in re.finditer(r'^    (bb\d+)(?: \(cleanup\))?: \{\n(.*?)^    \}', body, re.S | re.M):
            blocks[bm.group(1)] = [l.strip() for l in bm.group(2).strip().split('\n') if l.strip()]
        f = dict(name=name, params=[p for p, _ in params], locs=locs, blocks=blocks, source=m.group(0))
        self.cache[name] = f
        return f


def const(tok):
    m = re.match(r'const (-?\d+)_(\w+)$', tok)
    if m:
        return ('bv', bv(int(m.group(1)), W[m.group(2)]), W[m.group(2)], m.group(2)[0] == 'i')
    if tok in ('const true', 'const false'):
        return ('bool', tok.split()[1])
    m = re.match(r'const (?:std::\w+::)*(\w+)::<.*>::(None)$', tok)
    if m:
        return ('enum', bv(0, 64), {})
    return ('opaque', tok)


class Exec:
    def __init__(self, mir):
        self.mir = mir
        self.oblig = []      # (pc, cond, text)
        self.defs = []       # define-fun lines
        self.n = 0
        self.functions = set()

    def bind(self, v):
        """share terms: give every scalar value a name"""
        if v[0] == 'bv' and not re.match(r'^(\(_ bv\d+ \d+\)|[a-z]\w*)$', v[1]):
            self.n += 1
            name = 't%d' % self.n
            self.defs.append('(define-fun %s () (_ BitVec %d) %s)' % (name, v[2], v[1]))
            return ('bv', name, v[2], v[3])
        if v[0] == 'bool' and not re.match(r'^(true|false|[a-z]\w*)$', v[1]):
            self.n += 1
            name = 'b%d' % self.n
            self.defs.append('(define-fun %s () Bool %s)' % (name, v[1]))
            return ('bool', name)
        if v[0] == 'tup':
            return ('tup', [self.bind(x) for x in v[1]])
        if v[0] == 'enum':
            d = self.bind(('bv', v[1], 64, True))[1]
            return ('enum', d, {k: [self.bind(x) for x in xs] for k, xs in v[2].items()})
        return v

    def pcand(self, pc, c):
        if pc == 'true':
            return self.bind(('bool', c))[1]
        return self.bind(('bool', '(and %s %s)' % (pc, c)))[1]

    def place_get(self, env, p):
        p = p.strip()
        p = re.match(r'^(?:copy |move )?(.*)$', p).group(1)
        if p.startswith('const '):
            return const(p)
        m = re.match(r'^\(\((_\d+) as (\w+)\)\.(\d+): [^)]+\)$', p)
        if m:
            return env[m.group(1)][2][m.group(2)][int(m.group(3))]
        m = re.match(r'^\((_\d+)\.(\d+): [^)]+\)$', p)
        if m:
            return env[m.group(1)][1][int(m.group(2))]
        m = re.match(r'^(_\d+)\[(\d+) of \d+\]$', p)
        if m:
            return env[m.group(1)][1][int(m.group(2))]
        return env[p]

    def rvalue(self, env, rv):
        g = lambda x: self.place_get(env, x)
        m = re.match(r'^(\w+)\((.*), (.*)\)$', rv)
        BIN = ('Le', 'Lt', 'Ge', 'Gt', 'Eq', 'Ne', 'Div', 'Rem', 'Add', 'Sub', 'Mul', 'AddWithOverflow', 'SubWithOverflow',
               'MulWithOverflow', 'BitAnd', 'BitOr', 'BitXor', 'AddUnchecked', 'SubUnchecked', 'MulUnchecked')
        if m and m.group(1) in BIN:
            op, a, b = m.group(1), g(m.group(2)), g(m.group(3))
            w, s = a[2], a[3]
            cmpo = {'Le': 'bvsle' if s else 'bvule', 'Lt': 'bvslt' if s else 'bvult', 'Ge': 'bvsge' if s else 'bvuge',
                    'Gt': 'bvsgt' if s else 'bvugt'}
            if op in cmpo:
                return ('bool', '(%s %s %s)' % (cmpo[op], a[1], b[1]))
            if op == 'Eq':
                return ('bool', '(= %s %s)' % (a[1], b[1]))
            if op == 'Ne':
                return ('bool', '(not (= %s %s))' % (a[1], b[1]))
            ar = {'Div': 'bvsdiv' if s else 'bvudiv', 'Rem': 'bvsrem' if s else 'bvurem', 'Add': 'bvadd', 'Sub': 'bvsub',
                  'Mul': 'bvmul', 'BitAnd': 'bvand', 'BitOr': 'bvor', 'BitXor': 'bvxor', 'AddUnchecked': 'bvadd',
                  'SubUnchecked': 'bvsub', 'MulUnchecked': 'bvmul'}
            if op in ar:
                return ('bv', '(%s %s %s)' % (ar[op], a[1], b[1]), w, s)
            base = op[:3]
            if s:
                raise NotImplementedError('signed overflow op ' + rv)
            ext = lambda t: '((_ zero_extend %d) %s)' % (w, t)
            wide = '(%s %s %s)' % ({'Add': 'bvadd', 'Sub': 'bvsub', 'Mul': 'bvmul'}[base], ext(a[1]), ext(b[1]))
            res = '((_ extract %d 0) %s)' % (w - 1, wide)
            if base == 'Sub':
                ovf = '(bvult %s %s)' % (a[1], b[1])
            else:
                ovf = '(not (= ((_ extract %d %d) %s) %s))' % (2 * w - 1, w, wide, bv(0, w))
            return ('tup', [('bv', res, w, s), ('bool', ovf)])
        m = re.match(r'^(.*) as (\w+) \(IntToInt\)$', rv)
        if m:
            a = g(m.group(1)); w2 = W[m.group(2)]; s2 = m.group(2)[0] == 'i'
            if w2 == a[2]:
                t = a[1]
            elif w2 < a[2]:
                t = '((_ extract %d 0) %s)' % (w2 - 1, a[1])
            else:
                t = '((_ %s %d) %s)' % ('sign_extend' if a[3] else 'zero_extend', w2 - a[2], a[1])
            return ('bv', t, w2, s2)
        m = re.match(r'^(.*) as (.*) \(Transmute\)$', rv)
        if m:
            a = g(m.group(1)); to = m.group(2)
            if a[0] == 'tup' and to in W:           # [u8; N] -> uN (little-endian memory)
                return ('bv', '(concat %s)' % ' '.join(x[1] for x in reversed(a[1])), W[to], False)
            am = re.match(r'\[u8; (\d+)\]', to)
            if a[0] == 'bv' and am:
                return ('tup', [('bv', '((_ extract %d %d) %s)' % (8 * i + 7, 8 * i, a[1]), 8, False)
                                for i in range(int(am.group(1)))])
            raise NotImplementedError(rv)
        m = re.match(r'^\[(.*)\]$', rv)
        if m:
            return ('tup', [g(x) for x in m.group(1).split(', ')])
        m = re.match(r'^discriminant\((_\d+)\)$', rv)
        if m:
            return ('bv', env[m.group(1)][1], 64, True)
        m = re.match(r'^(?:std::\w+::)*(\w+)::<.*>::(\w+)\((.*)\)$', rv)
        if m and m.group(2) in VAR_DISC:
            return ('enum', bv(VAR_DISC[m.group(2)], 64), {m.group(2): [g(x) for x in m.group(3).split(', ')]})
        m = re.match(r'^(?:std::\w+::)*(\w+)::<.*>::(None)$', rv)
        if m:
            return ('enum', bv(0, 64), {})
        m = re.match(r'^\((.*)\)$', rv)
        if m and ': ' not in rv:
            return ('tup', [g(x) for x in m.group(1).split(', ')])
        return g(rv)

    def run(self, fn, args, pc='true'):
        """-> list of (path condition, return value)"""
        f = self.mir.get_fn(fn)
        self.functions.add(fn)
        env0 = dict(zip(f['params'], args))
        for l, t in f['locs'].items():
            if 'Option<std::convert::Infallible>' in t and l not in env0:
                env0[l] = ('enum', bv(0, 64), {})
        stack = [('bb0', env0, pc)]
        out = []
        while stack:
            bb, env, pc = stack.pop()
            env = dict(env)
            stmts = f['blocks'][bb]
            for st in stmts[:-1]:
                st = st.rstrip(';')
                if st.startswith(('StorageLive', 'StorageDead', 'nop', 'FakeRead', 'Retag', 'PlaceMention', 'Coverage')):
                    continue
                m = re.match(r'^assume\((.*)\)$', st)
                if m:
                    pc = self.pcand(pc, self.place_get(env, m.group(1))[1])
                    continue
                lhs, rhs = st.split(' = ', 1)
                env[lhs] = self.bind(self.rvalue(env, rhs))
            t = stmts[-1].rstrip(';')
            if t == 'return':
                out.append((pc, env['_0'])); continue
            if t == 'unreachable':
                continue
            m = re.match(r'^goto -> (bb\d+)$', t)
            if m:
                stack.append((m.group(1), env, pc)); continue
            m = re.match(r'^switchInt\((.*)\) -> \[(.*)\]$', t)
            if m:
                v = self.place_get(env, m.group(1)); arms = m.group(2).split(', '); taken = []
                lit = re.match(r'^\(_ bv(\d+) \d+\)$', v[1]) if v[0] == 'bv' else None
                if lit:
                    val = int(lit.group(1)); tgt = None
                    for a in arms:
                        k, t2 = a.split(': ')
                        if k != 'otherwise' and int(k) == val:
                            tgt = t2
                    if tgt is None:
                        tgt = [a.split(': ')[1] for a in arms if a.startswith('otherwise')][0]
                    stack.append((tgt, env, pc)); continue
                for a in arms:
                    k, tgt = a.split(': ')
                    if k == 'otherwise':
                        c = '(and true %s)' % ' '.join('(not %s)' % x for x in taken) if taken else 'true'
                    else:
                        c = ('(= %s %s)' % (v[1], bv(int(k), v[2]))) if v[0] == 'bv' else (('(not %s)' % v[1]) if k == '0' else v[1])
                        taken.append(c)
                    stack.append((tgt, env, self.pcand(pc, c)))
                continue
            m = re.match(r'^assert\((!?)(.*?), "(.*)\) -> \[success: (bb\d+), unwind continue\]$', t)
            if m:
                c = self.place_get(env, m.group(2))[1]
                if m.group(1):
                    c = '(not %s)' % c
                self.oblig.append((pc, c, '%s: %s' % (fn, m.group(3)[:60])))
                stack.append((m.group(4), env, self.pcand(pc, c))); continue
            m = re.match(r'^(_\d+) = bswap::<u(\d+)>\((.*)\) -> \[return: (bb\d+), unwind unreachable\]$', t)
            if m:
                a = self.place_get(env, m.group(3)); n = int(m.group(2)) // 8
                env[m.group(1)] = self.bind(('bv', '(concat %s)' % ' '.join(
                    '((_ extract %d %d) %s)' % (8 * i + 7, 8 * i, a[1]) for i in range(n)), a[2], False))
                stack.append((m.group(4), env, pc)); continue
            m = re.match(r'^(_\d+) = (\w+)\((.*)\) -> \[return: (bb\d+), unwind continue\]$', t)
            if m:
                argv = [self.place_get(env, x) for x in m.group(3).split(', ')]
                for pc2, rv in self.run(m.group(2), argv, pc):
                    e2 = dict(env); e2[m.group(1)] = rv
                    stack.append((m.group(4), e2, pc2))
                continue
            raise NotImplementedError('%s: %s' % (fn, t))
        return out


def solve(smt, timeout, seed=0, want=()):
    """cvc5 int-blasting; returns ('unsat'|'sat'|'unknown', model dict, seconds). Any (error line = inconclusive."""
    t0 = time.time()
    def call(text):
        return subprocess.run(['cvc5', '--lang', 'smt2', '--solve-bv-as-int=sum', '--produce-models', '--seed=%d' % seed, '-'],
                              input=text, capture_output=True, text=True, timeout=timeout)
    try:
        r = call(smt)
    except subprocess.TimeoutExpired:
        return 'unknown', {}, time.time() - t0
    out = r.stdout
    if '(error' in out or '(error' in r.stderr:
        return 'unknown', {'error': (out + r.stderr)[:300]}, time.time() - t0
    first = out.strip().split('\n')[0].strip() if out.strip() else 'unknown'
    model = {}
    if first == 'sat' and want:
        try:
            r2 = call(smt + '(get-value (%s))\n' % ' '.join(want))
            for m in re.finditer(r'\((\w+) #b([01]+)\)', r2.stdout):
                model[m.group(1)] = int(m.group(2), 2)
        except subprocess.TimeoutExpired:
            pass
    return first, model, time.time() - t0


def cross_check_z3(smt, timeout):
    """second opinion from z3 (bit-blasting; usually times out on the /85 kernels -> 'unknown', which is reported as such)"""
    t0 = time.time()
    try:
        r = subprocess.run(['z3', '-in', '-T:%d' % timeout], input=smt, capture_output=True, text=True, timeout=timeout + 5)
    except subprocess.TimeoutExpired:
        return 'unknown', time.time() - t0
    out = r.stdout.strip().split('\n')[0] if r.stdout.strip() else 'unknown'
    if '(error' in r.stdout:
        out = 'unknown'
    return out, time.time() - t0


# ---------------------------------------------------------------------------------------------------------------------------
# queries
# ---------------------------------------------------------------------------------------------------------------------------

def q_a85_group_inverse(mir):
    """for ALL 2^32 groups c: word_85(base85_chunk(c)) == Some(c), every digit in '!'..='u', no arithmetic overflow"""
    ex = Exec(mir)
    c = [('bv', 'c%d' % i, 8, False) for i in range(4)]
    decls = ''.join('(declare-const c%d (_ BitVec 8))\n' % i for i in range(4))
    viol = []
    npaths = 0
    for pc, e in ex.run('base85_chunk', [('tup', c)]):
        for d in e[1]:
            viol.append('(and %s (not (and (bvuge %s #x21) (bvule %s #x75))))' % (pc, d[1], d[1]))
        for pc2, r in ex.run('word_85', [e], pc):
            npaths += 1
            if 'Some' in r[2]:
                arr = r[2]['Some'][0][1]
                eq = '(and %s)' % ' '.join('(= %s c%d)' % (arr[i][1], i) for i in range(4))
                viol.append('(and %s (not (and (= %s %s) %s)))' % (pc2, r[1], bv(1, 64), eq))
            else:
                viol.append(pc2)          # returning None for an encoder output is a violation
    for pc, cnd, _ in ex.oblig:
        viol.append('(and %s (not %s))' % (pc, cnd))
    smt = '(set-logic ALL)\n' + decls + '\n'.join(ex.defs) + '\n(assert (or %s))\n(check-sat)\n' % '\n '.join(viol)
    vac = '(set-logic ALL)\n' + decls + '\n'.join(ex.defs) + '\n(check-sat)\n'
    return dict(smt=smt, vacuity=vac, paths=npaths, overflow_obligations=len(ex.oblig), functions=sorted(ex.functions),
                inputs=['c0', 'c1', 'c2', 'c3'])


def eval_concrete(mir, fn, arg_bytes):
    """run the encoding of fn on concrete bytes (translator validation): returns the list of result bytes or None"""
    ex = Exec(mir)
    args = [('tup', [('bv', bv(b, 8), 8, False) for b in arg_bytes])]
    paths = ex.run(fn, args)
    decl = '\n'.join(ex.defs)
    for pc, r in paths:
        # which path is taken?
        st, _, _ = solve('(set-logic ALL)\n%s\n(assert %s)\n(check-sat)\n' % (decl, pc), 60)
        if st != 'sat':
            continue
        if r[0] == 'tup':
            terms = [x[1] for x in r[1]]
        elif r[0] == 'enum':
            if 'Some' not in r[2]:
                return None
            st2, _, _ = solve('(set-logic ALL)\n%s\n(assert (and %s (= %s %s)))\n(check-sat)\n' % (decl, pc, r[1], bv(1, 64)), 60)
            if st2 != 'sat':
                return None
            terms = [x[1] for x in r[2]['Some'][0][1]]
        q = '(set-logic ALL)\n%s\n(assert %s)\n(check-sat)\n(get-value (%s))\n' % (decl, pc, ' '.join(terms))
        r2 = subprocess.run(['cvc5', '--lang', 'smt2', '--produce-models', '-'], input=q, capture_output=True, text=True, timeout=60)
        vals = re.findall(r'#b([01]{8})', r2.stdout)
        return [int(v, 2) for v in vals]
    return None


QUERIES = {'a85_group_inverse': q_a85_group_inverse}

# the repo's own unit-test vector (enc::tests::base_85: "hello world!" <-> "BOu!rD]j7BEbo80~>") plus boundary groups,
# pushed through the ENCODING (not the native code) to validate the translator on every run
VECTORS = [
    ('base85_chunk', list(b'hell'), list(b'BOu!r')), ('base85_chunk', list(b'o wo'), list(b'D]j7B')),
    ('base85_chunk', list(b'rld!'), list(b'Ebo80')), ('word_85', list(b'BOu!r'), list(b'hell')),
    ('word_85', list(b'D]j7B'), list(b'o wo')), ('word_85', list(b'Ebo80'), list(b'rld!')),
    ('base85_chunk', [255, 255, 255, 255], list(b's8W-!')), ('word_85', list(b's8W-!'), [255, 255, 255, 255]),
    ('word_85', list(b's8W-"'), None), ('base85_chunk', [0, 0, 0, 0], list(b'!!!!!')), ('word_85', list(b'!!!!v'), None),
]


def validate_translator(mir):
    bad = []
    for fn, inp, want in VECTORS:
        got = eval_concrete(mir, fn, inp)
        if got != want:
            bad.append((fn, inp, want, got))
    return bad


if __name__ == '__main__':
    mir = Mir(sys.argv[1])
    q = QUERIES[sys.argv[2]](mir)
    print({k: v for k, v in q.items() if k not in ('smt', 'vacuity')}, len(q['smt']))
    print(solve(q['vacuity'], 60)[0], '(assumptions alone: must be sat)')
    print(solve(q['smt'], 600, want=q['inputs']))
    print(cross_check_z3(q['smt'], 30))
    print('translator validation failures:', validate_translator(mir))
    print(eval_concrete(mir, 'base85_chunk', [0x68, 0x65, 0x6c, 0x6c]), list(b'BOu!r'))
    print(eval_concrete(mir, 'word_85', list(b'BOu!r')), [0x68, 0x65, 0x6c, 0x6c])
