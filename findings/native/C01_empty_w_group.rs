use pdf::font::Font;
use pdf::object::{NoResolve, Object};
use pdf::parser::{parse, ParseFlags};
fn font(w: &str) -> Font {
    let src = format!("<< /Type /Font /Subtype /CIDFontType2 /BaseFont /F /CIDSystemInfo << >> /FontDescriptor << /Type /FontDescriptor \
        /FontName /F /Flags 4 /FontBBox [0 0 1 1] /ItalicAngle 0 /Ascent 1 /Descent 0 /CapHeight 1 /StemV 1 >> /DW 500 /W {} >>", w);
    let p = parse(src.as_bytes(), &NoResolve, ParseFlags::ANY).unwrap();
    Font::from_primitive(p, &NoResolve).unwrap()
}
#[test]
fn empty_width_group_is_not_a_panic() {
    // an empty array-form group at code 0: `first + len - 1` used to underflow
    let r = font("[0 []]").widths(&NoResolve);
    if let Ok(Some(w)) = r { assert_eq!(w.get(0), 500.0); assert_eq!(w.get(7), 500.0); }
    let r = font("[3 [] 5 [10 20]]").widths(&NoResolve);
    if let Ok(Some(w)) = r { assert_eq!(w.get(5), 10.0); assert_eq!(w.get(6), 20.0); assert_eq!(w.get(3), 500.0); }
    // well-formed arrays are unchanged
    let w = font("[1 [10 20] 7 9 30]").widths(&NoResolve).unwrap().unwrap();
    assert_eq!((w.get(0), w.get(1), w.get(2), w.get(3), w.get(7), w.get(9), w.get(10)), (500.0, 10.0, 20.0, 500.0, 30.0, 30.0, 500.0));
}
