// Native demonstration (append inside pdf/src/enc.rs, `cargo test --lib verif_probe`): before the repair `encode(.., FlateDecode)`
// returned an empty vector for every input (the libflate encoder was dropped without `finish()`), so decode(encode(d)) failed.
// Shown natively: the deflate compressor (LZ77 + Huffman construction over symbolic data) is beyond the solver's reach.
#[cfg(test)]
mod verif_probe {
    use super::*;
    #[test]
    fn flate_roundtrip() {
        for n in [0usize, 1, 2, 3, 17, 300, 70000] {
            let d: Vec<u8> = (0..n).map(|i| (i * 31 % 251) as u8 ^ (i / 7) as u8).collect();
            let f = StreamFilter::FlateDecode(LZWFlateParams::default());
            let e = encode(&d, &f).unwrap();
            assert!(e.len() >= 6, "zlib stream has header and checksum");
            assert_eq!(e[0] & 0x0f, 8, "zlib CM = deflate");
            assert_eq!(((e[0] as u16) << 8 | e[1] as u16) % 31, 0, "zlib header check");
            assert_eq!(decode(&e, &f).unwrap(), d, "n={}", n);
        }
    }
}
