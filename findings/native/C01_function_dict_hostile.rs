use pdf::object::{Function, NoResolve, Object};
use pdf::primitive::{Dictionary, Primitive};
#[test]
fn hostile_function_dictionaries_are_errors() {
    // type 2 function with an empty /Domain
    let mut d = Dictionary::new();
    d.insert("FunctionType", Primitive::Integer(2));
    d.insert("Domain", Primitive::Array(vec![]));
    d.insert("N", Primitive::Integer(1));
    d.insert("C0", Primitive::Array(vec![Primitive::Integer(0)]));
    assert!(Function::from_primitive(Primitive::Dictionary(d), &NoResolve).is_err());
    // with a one-element /Domain
    let mut d = Dictionary::new();
    d.insert("FunctionType", Primitive::Integer(2));
    d.insert("Domain", Primitive::Array(vec![Primitive::Integer(0)]));
    d.insert("N", Primitive::Integer(1));
    d.insert("C1", Primitive::Array(vec![Primitive::Integer(1)]));
    assert!(Function::from_primitive(Primitive::Dictionary(d), &NoResolve).is_err());
    // a well-formed one still loads
    let mut d = Dictionary::new();
    d.insert("FunctionType", Primitive::Integer(2));
    d.insert("Domain", Primitive::Array(vec![Primitive::Integer(0), Primitive::Integer(1)]));
    d.insert("N", Primitive::Integer(1));
    d.insert("C0", Primitive::Array(vec![Primitive::Integer(0)]));
    d.insert("C1", Primitive::Array(vec![Primitive::Integer(1)]));
    assert!(Function::from_primitive(Primitive::Dictionary(d), &NoResolve).is_ok());
}
