// Native demonstration (append inside pdf/src/font.rs, `cargo test --lib verif_probe`): before the repair `write_cmap` wrote
// `<0001> <0003> [<0041>, <0042>, <0043>]` -- the commas are not PDF/CMap syntax and `parse_cmap` dropped the whole range, so every
// map with two or more consecutive codes lost them on the way back.  Shown natively: writer (HashMap, group_by, `write!`) and reader
// (object parser) are beyond the solver's reach; the leaf kernels are decided by font4_write_cid / font4_parse_cid.
#[cfg(test)]
mod verif_probe {
    use super::*;
    #[test]
    fn cmap_roundtrip_range() {
        for n in [0u32, 1, 2, 3, 255, 256, 257, 300] {
            let m = ToUnicodeMap::create((0..n).map(|i| ((i*7 % 311) as u16 + if i % 3 == 0 { 0xF000 } else { 0 }, SmallString::from(char::from_u32(0x1F600 + i).unwrap().to_string().as_str()))));
            let back = parse_cmap(write_cmap(&m).as_bytes()).unwrap();
            let mut a: Vec<_> = m.iter().map(|(a,b)| (a,b.to_string())).collect(); a.sort();
            let mut b: Vec<_> = back.iter().map(|(a,b)| (a,b.to_string())).collect(); b.sort();
            assert_eq!(a, b, "n={}", n);
        }
    }
}
