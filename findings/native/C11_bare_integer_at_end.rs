use pdf::parser::{parse, ParseFlags};
use pdf::object::NoResolve;
use pdf::primitive::Primitive;
#[test]
fn bare_integer_at_end_of_input() {
    for (src, want) in [(&b"42"[..], 42), (b"42 ", 42), (b"-7", -7), (b"5 0", 5), (b"5 0 ", 5), (b"12 0 obj", 12)] {
        match parse(src, &NoResolve, ParseFlags::ANY) {
            Ok(Primitive::Integer(i)) => assert_eq!(i, want, "{:?}", std::str::from_utf8(src)),
            other => panic!("{:?} -> {:?}", std::str::from_utf8(src), other),
        }
    }
    assert!(matches!(parse(b"5 0 R", &NoResolve, ParseFlags::ANY), Ok(Primitive::Reference(r)) if r.id == 5 && r.gen == 0));
    assert!(matches!(parse(b"[1 2 3]", &NoResolve, ParseFlags::ANY), Ok(Primitive::Array(a)) if a.len() == 3));
    assert!(matches!(parse(b"[1 2]", &NoResolve, ParseFlags::ANY), Ok(Primitive::Array(a)) if a.len() == 2));
    assert!(matches!(parse(b"[1 2 R 3]", &NoResolve, ParseFlags::ANY), Ok(Primitive::Array(a)) if a.len() == 2));
}
