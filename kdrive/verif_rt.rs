// Injected by kdrive into a *scratch copy* of pdf/src/lib.rs (never into /repo).
//
// Under `cfg(kani)` nothing here is used: harnesses talk to the real `kani` crate.
// Under `cfg(verif_replay)` this module stands in for the `kani` crate so that the *same*
// harness body can be executed natively: every `kani::any()` pops the bytes the solver chose
// (taken from the CBMC trace, in call order) from VERIF_REPLAY_BYTES.
#[cfg(verif_replay)]
#[allow(dead_code)]
pub mod verif_kani {
    use std::cell::RefCell;
    use std::convert::TryInto;
    thread_local! {
        static Q: RefCell<Option<(Vec<u8>, usize)>> = RefCell::new(None);
    }
    fn pop(n: usize) -> Vec<u8> {
        Q.with(|q| {
            let mut q = q.borrow_mut();
            if q.is_none() {
                let hex = std::env::var("VERIF_REPLAY_BYTES").unwrap_or_default();
                let bytes: Vec<u8> = (0..hex.len() / 2)
                    .map(|i| u8::from_str_radix(&hex[2 * i..2 * i + 2], 16).unwrap())
                    .collect();
                *q = Some((bytes, 0));
            }
            let (bytes, pos) = q.as_mut().unwrap();
            if *pos + n > bytes.len() {
                panic!("VERIF-REPLAY-EXHAUSTED");
            }
            let out = bytes[*pos..*pos + n].to_vec();
            *pos += n;
            out
        })
    }
    pub trait Arbitrary: Sized {
        fn any() -> Self;
    }
    macro_rules! prim {
        ($($t:ty),*) => {$(
            impl Arbitrary for $t {
                fn any() -> Self {
                    let b = pop(std::mem::size_of::<$t>());
                    let mut a = [0u8; std::mem::size_of::<$t>()];
                    a.copy_from_slice(&b);
                    <$t>::from_le_bytes(a)
                }
            }
        )*};
    }
    prim!(u8, u16, u32, u64, u128, usize, i8, i16, i32, i64, i128, isize, f32, f64);
    impl Arbitrary for bool {
        fn any() -> Self {
            let b = pop(1)[0];
            assume(b < 2);
            b == 1
        }
    }
    impl Arbitrary for char {
        fn any() -> Self {
            let v = u32::any();
            match char::from_u32(v) {
                Some(c) => c,
                None => {
                    assume(false);
                    unreachable!()
                }
            }
        }
    }
    impl<T: Arbitrary, const N: usize> Arbitrary for [T; N] {
        fn any() -> Self {
            let mut v = Vec::with_capacity(N);
            for _ in 0..N {
                v.push(T::any());
            }
            match v.try_into() {
                Ok(a) => a,
                Err(_) => unreachable!(),
            }
        }
    }
    pub fn any<T: Arbitrary>() -> T {
        T::any()
    }
    pub fn assume(c: bool) {
        if !c {
            // the recorded values do not satisfy the harness' assumptions: the replay does not reproduce
            println!("VERIF-ASSUME-VIOLATED");
            std::process::exit(77);
        }
    }
    pub fn cover(_c: bool, _msg: &'static str) {}
}
