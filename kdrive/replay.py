#!/usr/bin/env python3
"""Re-run a recorded counterexample (evidence/replays/<prop>_<obligation>.json) natively against /repo's current tree."""
import json, os, shutil, sys
sys.path.insert(0, os.path.dirname(os.path.abspath(__file__)))
import driver
sys.path.insert(0, os.path.join(driver.VERIF, "harness"))
import obligations

def main():
    rec = json.load(open(sys.argv[1]))
    name = rec["obligation"]
    ob = [o for o in obligations.OBS if o["name"] == name][0]
    known = [k for k in driver.load_known() if k.get("status", "open") == "open"]
    kf = {k: False for k in obligations.KF_KEYS}
    for k in known:
        if k.get("key") in kf:
            kf[k["key"]] = True
    scratch = driver.make_scratch()
    try:
        rp = driver.Replayer(scratch, [ob["file"]], kf)
        data = bytes.fromhex(rec["nondet_bytes_hex"])
        for release in (False, True):
            st, out = rp.replay(ob.get("harness", name), data, release=release)
            print("%s profile: %s" % ("release" if release else "dev", st))
            print(out[-800:])
            if st == "reproduced":
                print("VIOLATION property=%s replay=%s" % (rec["property"], sys.argv[1]))
                sys.exit(1)
        sys.exit(0)
    finally:
        shutil.rmtree(scratch, ignore_errors=True)
main()
