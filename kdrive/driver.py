#!/usr/bin/env python3
"""kdrive: Kani compiler + CBMC driven by hand (see DESIGN.md §3).

check <PROPERTY> <quick|thorough>
  1. rsync /repo -> scratch, inject harness modules (cfg(kani)) as child modules of their target files
  2. cargo kani --only-codegen -Z stubbing   (one goto binary per harness)
  3. per obligation: goto-cc / goto-instrument (Kani's own link pipeline) + recorded cuts + cbmc, in parallel
  4. FAILURE -> second cbmc run with --trace, nondet values extracted, native replay of the same harness body
  5. evidence/<PROPERTY>.json, exit 0 / 1 (VIOLATION line) / 2 (inconclusive)
"""
import concurrent.futures as cf
import json
import os
import re
import resource
import shutil
import signal
import subprocess
import sys
import tempfile
import time

VERIF = os.path.dirname(os.path.dirname(os.path.abspath(__file__)))
REPO = os.environ.get("VERIF_REPO", "/repo")
KANI_LIB_C = None  # resolved lazily

sys.path.insert(0, os.path.join(VERIF, "harness"))


def log(*a):
    print(*a, flush=True)


def kani_lib_c():
    global KANI_LIB_C
    if KANI_LIB_C is None:
        base = os.path.expanduser("~/.kani")
        for d in sorted(os.listdir(base)):
            p = os.path.join(base, d, "library", "kani", "kani_lib.c")
            if os.path.exists(p):
                KANI_LIB_C = p
        if KANI_LIB_C is None:
            raise RuntimeError("kani_lib.c not found")
    return KANI_LIB_C


def run(cmd, cwd=None, env=None, timeout=None, mem_gb=None, stdout=None):
    """Run a command under timeout + address-space limit; returns (rc, out). rc=-9 on timeout."""
    def pre():
        os.setsid()
        if mem_gb:
            lim = int(mem_gb * (1 << 30))
            resource.setrlimit(resource.RLIMIT_AS, (lim, lim))
    p = subprocess.Popen(cmd, cwd=cwd, env=env, stdout=stdout or subprocess.PIPE, stderr=subprocess.STDOUT,
                         preexec_fn=pre)
    try:
        out, _ = p.communicate(timeout=timeout)
        return p.returncode, (out.decode("utf-8", "replace") if out else "")
    except subprocess.TimeoutExpired:
        try:
            os.killpg(p.pid, signal.SIGKILL)
        except ProcessLookupError:
            pass
        p.wait()
        return -9, ""


# ----------------------------------------------------------------------------------------------------------------
# scratch copy + injection
# ----------------------------------------------------------------------------------------------------------------

HEADER_RE = re.compile(r"^//@\s*(\w+):\s*(.*)$")


def read_harness_file(path):
    meta = {}
    body = []
    for line in open(path):
        m = HEADER_RE.match(line)
        if m and not body:
            meta[m.group(1)] = m.group(2).strip()
        else:
            body.append(line)
    return meta, "".join(body)


def to_replay_source(body):
    """Same harness body, natively: #[kani::proof] -> #[test], other kani attributes dropped."""
    out = []
    for line in body.splitlines(True):
        s = line.strip()
        if s.startswith("#[kani::proof"):
            out.append(line.replace(s, "#[test]"))
        elif s.startswith("#[kani::"):
            continue
        else:
            out.append(line)
    return "".join(out)


def inject(work, harness_files, kf_active, replay=False):
    """Append each harness file as a child module of its target source file."""
    lib = os.path.join(work, "pdf", "src", "lib.rs")
    with open(lib, "a") as f:
        f.write("\n")
        f.write(open(os.path.join(VERIF, "kdrive", "verif_rt.rs")).read())
        # known-finding exclusion switches (generated from known_findings.json at run time)
        f.write("\n#[cfg(any(kani, verif_replay))]\n#[allow(dead_code)]\npub mod verif_kf {\n")
        for key, on in sorted(kf_active.items()):
            f.write("    pub const %s: bool = %s;\n" % (key, "true" if on else "false"))
        f.write("}\n")
    for hf in harness_files:
        meta, body = read_harness_file(os.path.join(VERIF, "harness", hf))
        target = os.path.join(work, meta["target"])
        modname = "verif_h_" + os.path.splitext(os.path.basename(hf))[0]
        with open(target, "a") as f:
            if replay:
                f.write("\n#[cfg(verif_replay)]\n#[allow(warnings)]\nmod %s {\n    use crate::verif_kani as kani;\n" % modname)
                f.write(to_replay_source(body))
            else:
                f.write("\n#[cfg(kani)]\n#[allow(warnings)]\nmod %s {\n" % modname)
                f.write(body)
            f.write("\n}\n")


def make_scratch():
    base = os.environ.get("VERIF_SCRATCH") or tempfile.gettempdir()
    return tempfile.mkdtemp(prefix="pdfv-", dir=base)


def copy_repo(dst):
    os.makedirs(dst, exist_ok=True)
    rc, out = run(["rsync", "-a", "--exclude", "target", "--exclude", ".git", REPO + "/", dst + "/"])
    if rc != 0:
        raise RuntimeError("rsync failed: " + out)


# ----------------------------------------------------------------------------------------------------------------
# compile
# ----------------------------------------------------------------------------------------------------------------

def kani_env():
    env = dict(os.environ)
    env["CARGO_NET_OFFLINE"] = "true"
    env.pop("RUSTFLAGS", None)
    env.pop("RUSTUP_TOOLCHAIN", None)
    return env


def seed_target(kt):
    """Reuse pre-built dependency artefacts (built by setup) so that only the pdf crate is compiled."""
    cache = os.path.join(VERIF, ".cache", "kt-base")
    if os.path.isdir(cache) and not os.path.exists(kt):
        rc, _ = run(["cp", "-a", "--reflink=auto", cache, kt])
        if rc != 0:
            shutil.rmtree(kt, ignore_errors=True)


def codegen(work, kt, names, logf):
    cmd = ["cargo", "kani", "--only-codegen", "-Z", "stubbing", "--target-dir", kt]
    for n in names:
        cmd += ["--harness", n]
    t0 = time.time()
    rc, out = run(cmd, cwd=os.path.join(work, "pdf"), env=kani_env(), timeout=3000)
    open(logf, "w").write(out)
    dt = time.time() - t0
    if rc != 0:
        return None, dt, out
    metas = []
    for root, _, files in os.walk(kt):
        for fn in files:
            if fn.endswith(".kani-metadata.json") and fn.startswith("pdf-"):
                metas.append(os.path.join(root, fn))
    table = {}
    for m in metas:
        d = json.load(open(m))
        for h in d.get("proof_harnesses", []):
            short = h["pretty_name"].split("::")[-1]
            table[short] = h
    return table, dt, out


# ----------------------------------------------------------------------------------------------------------------
# link + cuts + cbmc
# ----------------------------------------------------------------------------------------------------------------

CBMC_BASE = ["--no-malloc-may-fail", "--no-undefined-shift-check", "--no-signed-overflow-check", "--nan-check",
             "--no-self-loops-to-assumptions", "--no-pointer-primitive-check", "--object-bits", "16",
             "--sat-solver", "cadical", "--slice-formula", "--unwinding-assertions"]

FUNC_LINE = re.compile(r"^(.*?) /\* (\S+) \*/\s*$")


def list_functions(binary):
    rc, out = run(["goto-instrument", "--list-goto-functions", binary], timeout=600)
    fns = []
    for line in out.splitlines():
        m = FUNC_LINE.match(line)
        if m and not line.startswith(" "):
            fns.append((m.group(1), m.group(2)))
    return fns


def link(h, ob, outdir):
    """Kani's own link pipeline, then the obligation's cuts. Returns (binary, cutinfo) or raises."""
    sym = h["goto_file"]
    o = os.path.join(outdir, ob["name"] + ".out")
    steps = [
        ["goto-cc", sym, kani_lib_c(), "-o", o],
        ["goto-cc", o, "--function", h["mangled_name"], "-o", o],
        ["goto-instrument", "--add-library", "--no-malloc-may-fail", o, o],
        ["goto-instrument", "--generate-function-body-options", "assert-false-assume-false",
         "--generate-function-body", ".*", "--drop-unused-functions", o, o],
        ["goto-instrument", "--ensure-one-backedge-per-target", o, o],
    ]
    for s in steps:
        rc, out = run(s, timeout=900)
        if rc != 0:
            raise RuntimeError("link step failed: %s\n%s" % (" ".join(s[:3]), out[-2000:]))
    info = {"cut": [], "guard": [], "unwindset": []}
    cuts = ob.get("cuts") or []
    guards = ob.get("guards") or []
    uws = ob.get("unwindset") or []
    fns = None
    if cuts or guards or uws:
        fns = list_functions(o)
    # per-loop bounds are given by *pretty* function name (regex), loop index, bound; mangled names are resolved here
    for (rx, idx, bound) in uws:
        r_ = re.compile(rx)
        hit = False
        for pretty, mangled in fns:
            if r_.search(pretty):
                if idx is None:      # recursion bound of the function itself
                    info["unwindset"].append("%s:%d" % (mangled.rstrip(","), bound))
                else:
                    info["unwindset"].append("%s.%s:%d" % (mangled.rstrip(","), idx, bound))
                hit = True
        if not hit and not ob.get("unwindset_optional"):
            raise RuntimeError("unwindset: no function matches %s" % rx)
    if cuts or guards:
        cut_re = [re.compile(r"^std::ptr::drop_glue::<(%s)>$" % c) for c in cuts]
        guard_re = [re.compile(g) for g in guards]
        cut_syms, guard_syms = [], []
        for pretty, mangled in fns:
            if mangled.endswith(","):      # "/* sym, body not available */": nothing to cut
                continue
            if any(r.match(pretty) for r in cut_re):
                cut_syms.append(mangled)
                info["cut"].append(pretty)
            elif any(r.search(pretty) for r in guard_re):
                guard_syms.append(mangled)
                info["guard"].append(pretty)
        # cut = body removed *after* Kani's generate-function-body pass: CBMC treats the call as a no-op
        # guard = body replaced by assert(false); assume(false)
        for syms, opt in ((cut_syms, None), (guard_syms, "assert-false-assume-false")):
            if not syms:
                continue
            cmd = ["goto-instrument"]
            for s in syms:
                cmd += ["--remove-function-body", s]
            cmd += [o, o]
            rc, out = run(cmd, timeout=900)
            if rc != 0:
                raise RuntimeError("remove-function-body failed\n" + out[-2000:])
            if opt is None:
                continue
            rx = "^(" + "|".join(re.escape(s) for s in syms) + ")$"
            rc, out = run(["goto-instrument", "--generate-function-body", rx, "--generate-function-body-options", opt,
                           o, o], timeout=900)
            if rc != 0:
                raise RuntimeError("generate-function-body failed\n" + out[-2000:])
        info["guard_syms"] = guard_syms
    return o, info


def cbmc_args(ob, info):
    a = list(CBMC_BASE)
    if ob.get("unwind"):
        a += ["--unwind", str(ob["unwind"])]
    if info.get("unwindset"):
        a += ["--unwindset", ",".join(info["unwindset"])]
    a += ob.get("cbmc_extra") or []
    return a


def parse_cbmc_json(text):
    try:
        data = json.loads(text)
    except Exception:
        # truncated output (killed): try to salvage nothing
        return None
    res = {"props": [], "msgs": [], "status": None}
    for item in data:
        if not isinstance(item, dict):
            continue
        if "result" in item:
            res["props"] = item["result"]
        if "cProverStatus" in item:
            res["status"] = item["cProverStatus"]
        if "messageText" in item:
            res["msgs"].append(item["messageText"])
    return res


STAT_RE = {
    "symex_s": re.compile(r"Runtime Symex: ([0-9.e+-]+)s"),
    "vars": re.compile(r"^(\d+) variables, (\d+) clauses"),
    "solver_s": re.compile(r"Runtime decision procedure: ([0-9.e+-]+)s"),
    "vccs": re.compile(r"Generated (\d+) VCC\(s\), (\d+) remaining after simplification"),
    "steps": re.compile(r"size of program expression: (\d+) steps"),
}


def stats_from(msgs):
    st = {"symex_s": 0.0, "solver_s": 0.0, "variables": 0, "clauses": 0, "vccs": 0, "vccs_remaining": 0, "steps": 0}
    for m in msgs:
        x = STAT_RE["symex_s"].search(m)
        if x:
            st["symex_s"] += float(x.group(1))
        x = STAT_RE["solver_s"].search(m)
        if x:
            st["solver_s"] += float(x.group(1))
        x = STAT_RE["vars"].search(m)
        if x:
            st["variables"] = max(st["variables"], int(x.group(1)))
            st["clauses"] = max(st["clauses"], int(x.group(2)))
        x = STAT_RE["vccs"].search(m)
        if x:
            st["vccs"] = int(x.group(1))
            st["vccs_remaining"] = int(x.group(2))
        x = STAT_RE["steps"].search(m)
        if x:
            st["steps"] = int(x.group(1))
    return st


def classify(props, ob, info):
    """Split CBMC's per-property verdicts. Returns dict with lists."""
    out = {"fail": [], "harness_bug": [], "unwind_fail": [], "guard_fail": [], "unsupported": [], "reach": {}, "asserts": [],
           "n_props": 0, "n_success": 0}
    guard_syms = set(info.get("guard_syms") or [])
    for p in props:
        name = p.get("property", "")
        desc = p.get("description", "")
        status = p.get("status")
        fn = (p.get("sourceLocation") or {}).get("function", "")
        if ".reachability_check." in name or "reachability_check" in p.get("class", ""):
            # Kani's assertion-reach-checks: FAILURE == the guarded assertion is reachable
            out["reach"][desc.strip()] = (status == "FAILURE")
            continue
        out["n_props"] += 1
        if status == "SUCCESS":
            out["n_success"] += 1
        m = re.match(r"^\[(KANI_CHECK_ID_[^\]]+)\]\s*(.*)$", desc)
        if m and "verif_h_" in (fn + name) and m.group(2).startswith("assertion failed"):
            out["asserts"].append((m.group(1), m.group(2), status, name))
        if status != "FAILURE":
            continue
        if desc.startswith("no body for callee ") and desc[len("no body for callee "):].strip() in set(info.get("cut") or []):
            out["n_success"] += 1      # the recorded cut X1 itself (DESIGN §4): tolerated
            continue
        if ".unwind." in name or ".recursion" in name or "unwinding assertion" in desc or "recursion unwinding" in desc:
            out["unwind_fail"].append(p)
        elif any(name.startswith(g + ".") or fn == g for g in guard_syms):
            out["guard_fail"].append(p)
        elif "not currently supported by Kani" in desc or "no-body" in name or "no_body" in name \
                or "unsupported" in desc.lower() or "should be unreachable" in desc and "undefined function" in desc:
            out["unsupported"].append(p)
        elif "verif_h_" in (fn + name) and "assertion failed" not in desc:
            # an overflow / bounds failure INSIDE harness or reference-model code is a harness defect, not a finding
            out["harness_bug"].append(p)
        elif ".NaN." in name or name.startswith("feraiseexcept."):
            # cut X14 (DESIGN §4): CBMC's --nan-check ("NaN on +") and its libm model's feraiseexcept() assertion flag float
            # operations that produce NaN / raise an IEEE exception flag. Rust float arithmetic never traps, so neither is a
            # panic of the code under test; tolerated and counted.
            out["n_success"] += 1
            out["float_model"] = out.get("float_model", 0) + 1
        else:
            out["fail"].append(p)
    return out


def le_bytes(value):
    """CBMC JSON value -> little-endian bytes (as Kani's concrete playback does)."""
    if "binary" in value:
        b = value["binary"]
        n = (len(b) + 7) // 8
        return int(b, 2).to_bytes(n, "little")
    if "elements" in value:
        out = b""
        for e in value["elements"]:
            out += le_bytes(e["value"])
        return out
    if "members" in value:
        out = b""
        for e in value["members"]:
            out += le_bytes(e["value"])
        return out
    return b""


def extract_nondet(trace):
    """Values returned by kani::any_raw_internal / any_raw_array, in call order, as little-endian bytes.
    For arrays CBMC may print the whole array (value.elements) and/or one step per element (lhs ends in [i])."""
    out = []          # list of bytes objects, in order
    vals = []
    pending = None    # [base_lhs, whole_bytes, {index: bytes}, elem_width]

    def flush():
        nonlocal pending
        if pending is not None:
            base, whole, elems, fn = pending
            if elems:
                w = len(next(iter(elems.values())))
                n = max(len(whole) // w if w else 0, max(elems) + 1)
                b = b"".join(elems.get(i, whole[i * w:(i + 1) * w]) for i in range(n))
            else:
                b = whole
            out.append(b)
            vals.append({"fn": fn, "bytes": b.hex()})
            pending = None

    for st in trace:
        if st.get("stepType") != "assignment":
            continue
        lhs = st.get("lhs", "")
        fn = (st.get("sourceLocation") or {}).get("function", "")
        if not lhs.startswith("goto_symex$$return_value"):
            continue
        if fn.startswith("kani::any_raw_internal"):
            flush()
            b = le_bytes(st.get("value", {}))
            out.append(b)
            vals.append({"fn": fn, "bytes": b.hex()})
        elif fn.startswith("kani::any_raw_array"):
            m = re.match(r"^(.*)\[(\d+)\]$", lhs)
            v = st.get("value", {})
            if m:
                base, idx = m.group(1), int(m.group(2))
                if pending is None or pending[0] != base or idx in pending[2]:
                    flush()       # (a second array returned by the same any_raw_array instance starts over at an index seen before)
                    pending = [base, b"", {}, fn]
                pending[2][idx] = le_bytes(v)
            else:
                flush()
                pending = [lhs, le_bytes(v), {}, fn]
    flush()
    return b"".join(out), vals


def run_obligation(ob, table, outdir):
    """Returns a result dict for one obligation."""
    t0 = time.time()
    r = {"name": ob["name"], "verdict": "inconclusive", "reason": "", "wall_s": 0.0}
    h = table.get(ob.get("harness", ob["name"]))
    if h is None:
        r["reason"] = "harness not found in Kani metadata (did it compile?)"
        return r
    try:
        binary, info = link(h, ob, outdir)
    except Exception as e:  # noqa
        r["reason"] = "link: %s" % e
        r["wall_s"] = time.time() - t0
        return r
    r["cut_drop_glue"] = info["cut"]
    r["reach_guards"] = info["guard"]
    args = cbmc_args(ob, info)
    r["cbmc_args"] = " ".join(args)
    logp = os.path.join(outdir, ob["name"] + ".json")
    with open(logp, "wb") as lf:
        rc, _ = run(["cbmc"] + args + [binary, "--verbosity", "8", "--json-ui"], timeout=ob["timeout"],
                    mem_gb=ob.get("mem_gb", 8), stdout=lf)
    r["cbmc_rc"] = rc
    r["wall_s"] = time.time() - t0
    if rc == -9:
        r["reason"] = "timeout after %ss" % ob["timeout"]
        return r
    parsed = parse_cbmc_json(open(logp, "rb").read().decode("utf-8", "replace"))
    if parsed is None or not parsed["props"]:
        r["reason"] = "cbmc produced no result (rc=%s; out of memory or crash)" % rc
        return r
    r.update(stats_from(parsed["msgs"]))
    c = classify(parsed["props"], ob, info)
    r["properties_checked"] = c["n_props"]
    r["properties_success"] = c["n_success"]
    # vacuity: every assertion written in the harness module must be reachable
    unreachable = []
    reachable = 0
    for cid, text, status, name in c["asserts"]:
        rr = c["reach"].get(cid)
        if rr is True:
            reachable += 1
        elif rr is False:
            unreachable.append(text[:80])
    r["harness_assertions"] = len(c["asserts"])
    r["harness_assertions_reachable"] = reachable
    r["unreachable_assertions"] = unreachable
    r["failed"] = [{"property": p.get("property"), "description": p.get("description", "")[:200],
                    "location": "%s:%s" % ((p.get("sourceLocation") or {}).get("file", "?"),
                                           (p.get("sourceLocation") or {}).get("line", "?"))} for p in c["fail"]]
    if c["harness_bug"]:
        r["reason"] = "failure inside harness/reference-model code (harness defect, not a finding): " + \
            "; ".join("%s %s" % (p.get("property", ""), p.get("description", "")[:80]) for p in c["harness_bug"][:3])
        return r
    if c["fail"]:
        r["verdict"] = "fail"
        r["reason"] = "; ".join("%s @%s" % (f["description"][:90], f["location"]) for f in r["failed"][:3])
        r["_binary"] = binary
        r["_args"] = args
        return r
    if c["unwind_fail"]:
        if ob.get("unwind_is_violation"):
            r["verdict"] = "fail"
            r["hang"] = True
            r["failed"] = [{"property": p.get("property"), "description": p.get("description", "")[:200],
                            "location": "%s:%s" % ((p.get("sourceLocation") or {}).get("file", "?"),
                                                   (p.get("sourceLocation") or {}).get("line", "?"))}
                           for p in c["unwind_fail"]]
            r["reason"] = "loop bound exceeded: " + r["failed"][0]["property"]
            r["_binary"] = binary
            r["_args"] = args
        else:
            r["reason"] = "unwinding assertion failed (bound too small for this tree): " + \
                ", ".join(p.get("property", "") for p in c["unwind_fail"][:4])
        return r
    if c["guard_fail"]:
        r["reason"] = "reach-guard hit (cut no longer valid on this tree): " + \
            ", ".join(p.get("property", "") for p in c["guard_fail"][:3])
        return r
    if c["unsupported"]:
        r["reason"] = "unsupported construct reached: " + c["unsupported"][0].get("description", "")[:120]
        return r
    if c["n_props"] == 0 or c["n_success"] != c["n_props"]:
        r["reason"] = "cbmc reported %d/%d properties SUCCESS" % (c["n_success"], c["n_props"])
        return r
    # vacuity: at least one explicit harness assertion must be reachable (Kani's assertion-reach-checks are the witness:
    # the `assert(false)` twin of that assertion came back violated). Unreachable ones are listed in the evidence; with
    # strict_reach every explicit assertion has to be reachable.
    if c["asserts"] and reachable == 0:
        r["reason"] = "vacuous: no harness assertion is reachable"
        return r
    if ob.get("strict_reach") and unreachable:
        r["reason"] = "vacuous: harness assertion(s) unreachable: %s" % unreachable[:3]
        return r
    r["verdict"] = "pass"
    return r


def dump_mir(work, scratch):
    """optimized MIR of the pdf crate, from the scratch copy of /repo's working tree"""
    out = os.path.join(scratch, "pdf.mir")
    if os.path.exists(out):
        return out
    env = dict(os.environ)
    env["CARGO_NET_OFFLINE"] = "true"
    env["CARGO_TARGET_DIR"] = os.path.join(scratch, "mt")
    env.pop("RUSTFLAGS", None)
    cmd = ["cargo", "+nightly", "rustc", "--offline", "--lib", "--", "-Zunpretty=mir", "-C", "debug-assertions=off",
           "-C", "overflow-checks=on", "-Zmir-opt-level=2", "-Zinline-mir=yes", "-Zinline-mir-threshold=500",
           "-Zinline-mir-hint-threshold=500"]
    with open(out, "wb") as f:
        p = subprocess.run(cmd, cwd=os.path.join(work, "pdf"), env=env, stdout=f, stderr=subprocess.PIPE, timeout=1800)
    if p.returncode != 0 or os.path.getsize(out) < 1000:
        raise RuntimeError("MIR dump failed: " + p.stderr.decode("utf-8", "replace")[-1500:])
    return out


def run_m2s_obligation(ob, work, scratch, seed, replayer=None):
    """Engine M: MIR -> SMT-LIB -> cvc5 (int-blasting). Same verdict vocabulary as run_obligation."""
    sys.path.insert(0, os.path.join(VERIF, "mir2smt"))
    import m2s
    t0 = time.time()
    r = {"name": ob["name"], "verdict": "inconclusive", "reason": "", "wall_s": 0.0, "engine": "mir2smt+cvc5"}
    try:
        mirp = dump_mir(work, scratch)
        mir = m2s.Mir(mirp)
        q = m2s.QUERIES[ob["query"]](mir)
        r.update({"paths": q["paths"], "overflow_obligations": q["overflow_obligations"], "functions": q["functions"],
                  "smt_bytes": len(q["smt"]), "vccs": q["paths"] + q["overflow_obligations"]})
        bad = m2s.validate_translator(mir)
        r["translator_vectors"] = len(m2s.VECTORS)
        r["translator_vectors_matching_recorded_outputs"] = len(m2s.VECTORS) - len(bad)
        if bad and replayer is not None:
            # the tree no longer produces the recorded outputs (changed code, or a translator problem): compare the encoding
            # with the NATIVE functions of the current tree on the same inputs
            still_bad = []
            for fn, inp, want, got in bad:
                data = bytes([0 if fn == "base85_chunk" else 1] + (list(inp) + [0] * 5)[:5])
                st_, out_ = replayer.replay("enc_m_eval", data)
                mm = re.search(r"M2S-OUT (None|Some\(\[([0-9, ]*)\]\))", out_)
                native = None
                if mm and mm.group(1) != "None":
                    native = [int(x) for x in mm.group(2).split(",") if x.strip()]
                if not mm or native != got:
                    still_bad.append((fn, inp, native, got))
            r["translator_native_comparison"] = "%d vectors re-checked against the native build, %d disagree" % (len(bad), len(still_bad))
            if still_bad:
                r["reason"] = "translator validation failed: encoding and native code disagree: %r" % (still_bad[:2],)
                return r
        vac, _, _ = m2s.solve(q["vacuity"], 120, seed)
        r["vacuity_check"] = vac
        if vac != "sat":
            r["reason"] = "vacuity: assumptions alone are not satisfiable (%s)" % vac
            return r
        st, model, dt = m2s.solve(q["smt"], ob["timeout"], seed, want=q["inputs"])
        r["solver_s"] = round(dt, 2)
        r["solver"] = "cvc5 --solve-bv-as-int=sum"
        z, zdt = m2s.cross_check_z3(q["smt"], 20 if ob.get("tier") == "quick" else 120)
        r["z3_cross_check"] = "%s (%.0fs)" % (z, zdt)
        if st == "unsat" and z != "sat":
            r["verdict"] = "pass"
            r["harness_assertions_reachable"] = 1
        elif st == "sat":
            r["verdict"] = "fail"
            r["model"] = model
            r["failed"] = [{"property": ob["query"], "description": "SMT query satisfiable: counterexample %r" % model,
                            "location": "mir2smt"}]
            r["reason"] = "counterexample %r" % model
            r["_m2s_bytes"] = bytes(model.get(k, 0) & 0xff for k in q["inputs"])
        else:
            r["reason"] = "solver answered %s (z3: %s)" % (st, z)
    except Exception as e:  # noqa
        r["reason"] = "mir2smt: %r" % (e,)
    r["wall_s"] = time.time() - t0
    return r


def get_trace(r, ob, outdir):
    """Second CBMC run restricted to the first failing property, with --trace."""
    prop = r["failed"][0]["property"]
    logp = os.path.join(outdir, ob["name"] + ".trace.json")
    with open(logp, "wb") as lf:
        # no --slice-formula here: the slicer drops nondet assignments that do not influence the failing property, and
        # the replay needs every kani::any() value, in call order
        targs = [a for a in r["_args"] if a != "--slice-formula"]
        rc, _ = run(["cbmc"] + targs + [r["_binary"], "--json-ui", "--trace", "--property", prop],
                    timeout=ob["timeout"] * 2, mem_gb=ob.get("mem_gb", 8) * 2, stdout=lf)
    parsed = parse_cbmc_json(open(logp, "rb").read().decode("utf-8", "replace"))
    if not parsed:
        return None, None
    for p in parsed["props"]:
        if p.get("property") == prop and p.get("status") == "FAILURE" and "trace" in p:
            return extract_nondet(p["trace"])
    return None, None


# ----------------------------------------------------------------------------------------------------------------
# native replay
# ----------------------------------------------------------------------------------------------------------------

class Replayer:
    """Builds the harness modules as ordinary #[test]s (cfg(verif_replay)) in a second scratch copy."""

    def __init__(self, scratch, harness_files, kf_active):
        self.scratch = scratch
        self.files = harness_files
        self.kf = kf_active
        self.bins = {}

    def build(self, release):
        key = "release" if release else "dev"
        if key in self.bins:
            return self.bins[key]
        work = os.path.join(self.scratch, "rwork")
        if not os.path.isdir(work):
            copy_repo(work)
            inject(work, self.files, self.kf, replay=True)
        env = dict(os.environ)
        env["CARGO_NET_OFFLINE"] = "true"
        env["RUSTFLAGS"] = "--cfg verif_replay --check-cfg cfg(verif_replay) -A warnings"
        cmd = ["cargo", "test", "--offline", "-p", "pdf", "--lib", "--no-run", "--message-format", "json",
               "--target-dir", os.path.join(self.scratch, "rt")]
        if release:
            cmd.append("--release")
        rc, out = run(cmd, cwd=work, env=env, timeout=1800)
        exe = None
        for line in out.splitlines():
            if line.startswith("{"):
                try:
                    d = json.loads(line)
                except Exception:
                    continue
                if d.get("reason") == "compiler-artifact" and d.get("executable") and d.get("target", {}).get("name") == "pdf":
                    exe = d["executable"]
        if rc != 0 or not exe:
            open(os.path.join(self.scratch, "replay_build_%s.log" % key), "w").write(out)
            self.bins[key] = None
            return None
        self.bins[key] = exe
        return exe

    def replay(self, name, data, release=False, hang=False):
        """-> ('reproduced'|'not_reproduced'|'assume_violated'|'build_failed', output)"""
        exe = self.build(release)
        if not exe:
            return "build_failed", ""
        env = dict(os.environ)
        env["VERIF_REPLAY_BYTES"] = data.hex()
        env["RUST_BACKTRACE"] = "0"
        rc, out = run([exe, "--exact", "--test-threads", "1", "--nocapture", "--include-ignored"] +
                      self._filter(exe, name, env), env=env, timeout=30 if hang else 120)
        if rc == -9:
            return ("reproduced" if hang else "not_reproduced"), "native run did not return within the time limit"
        if "VERIF-ASSUME-VIOLATED" in out or rc == 77:
            return "assume_violated", out[-1500:]
        if "VERIF-REPLAY-EXHAUSTED" in out:
            return "not_reproduced", out[-1500:]
        if rc != 0 and ("panicked" in out or "FAILED" in out or rc < 0 or rc > 100):
            return "reproduced", out[-1500:]
        return "not_reproduced", out[-1500:]

    def _filter(self, exe, name, env):
        rc, out = run([exe, "--list"], env=env, timeout=60)
        for line in out.splitlines():
            if line.endswith(": test") and line[:-6].split("::")[-1] == name:
                return [line[:-6]]
        return [name]


# ----------------------------------------------------------------------------------------------------------------
# main
# ----------------------------------------------------------------------------------------------------------------

def load_known():
    p = os.path.join(VERIF, "known_findings.json")
    if not os.path.exists(p):
        return []
    return json.load(open(p)).get("findings", [])


def main():
    import obligations
    if len(sys.argv) < 3:
        print("usage: check <PROPERTY> <quick|thorough> [--only name,name] [--keep]")
        sys.exit(2)
    prop, tier = sys.argv[1], sys.argv[2]
    only = None
    keep = "--keep" in sys.argv
    if "--only" in sys.argv:
        only = set(sys.argv[sys.argv.index("--only") + 1].split(","))
        # development runs over a subset must not overwrite the evidence of the registered check
        os.environ.setdefault("VERIF_EVIDENCE_DIR", os.path.join(tempfile.gettempdir(), "verif-dev-evidence"))
    seed = int(os.environ.get("VERIF_SEED", "0") or 0)
    t_start = time.time()
    obs = obligations.select(prop, tier, seed)
    if only:
        obs = [o for o in obs if o["name"] in only]
    if not obs:
        print("no obligations registered for %s/%s" % (prop, tier))
        sys.exit(2)
    known = [k for k in load_known() if k.get("property") == prop and k.get("status", "open") == "open"]
    kf_active = {k: False for k in obligations.KF_KEYS}
    for k in known:
        if k.get("key") in kf_active:
            kf_active[k["key"]] = True
    files = sorted({o["file"] for o in obs})
    scratch = make_scratch()
    rc_final = 2
    evidence_extra = {}
    try:
        work = os.path.join(scratch, "work")
        kt = os.path.join(scratch, "kt")
        outdir = os.path.join(scratch, "out")
        os.makedirs(outdir)
        copy_repo(work)
        inject(work, files, kf_active)
        seed_target(kt)
        log("[kdrive] %s/%s: %d obligations, harness files: %s" % (prop, tier, len(obs), ", ".join(files)))
        table, cg_s, cg_out = codegen(work, kt, sorted({o.get("harness", o["name"]) for o in obs if o.get("engine") != "m2s"} or {"enc_paeth_spec"}), os.path.join(scratch, "codegen.log"))
        if table is None:
            log("[kdrive] harness compilation failed (inconclusive):")
            log("\n".join(l for l in cg_out.splitlines() if "error" in l.lower())[:3000])
            log(cg_out[-3000:])
            write_evidence(prop, tier, seed, obs, [], time.time() - t_start, 0,
                           {"inconclusive": "harness compilation failed on this tree"})
            sys.exit(2)
        log("[kdrive] codegen %.1fs, %d harnesses" % (cg_s, len(table)))
        workers = int(os.environ.get("VERIF_JOBS", "0") or 0) or min(16, max(1, os.cpu_count() or 4))
        heavy = sum(1 for o in obs if o.get("mem_gb", 8) > 8)
        if heavy:
            workers = min(workers, 12)      # memory caps are caps, measured peaks are 1-4 GB per obligation
        results = {}
        replayer = Replayer(scratch, files, kf_active)
        with cf.ThreadPoolExecutor(max_workers=workers) as ex:
            futs = {(ex.submit(run_m2s_obligation, o, work, scratch, seed, replayer) if o.get("engine") == "m2s"
                     else ex.submit(run_obligation, o, table, outdir)): o
                    for o in sorted(obs, key=lambda o: -o["timeout"])}
            for f in cf.as_completed(futs):
                o = futs[f]
                try:
                    r = f.result()
                except Exception as e:  # noqa
                    r = {"name": o["name"], "verdict": "inconclusive", "reason": "driver exception: %r" % e,
                         "wall_s": 0.0}
                results[o["name"]] = r
                log("[kdrive]   %-40s %-12s %6.1fs %s" % (o["name"], r["verdict"], r["wall_s"],
                                                          ("vars=%s" % r.get("variables", "?")) if r["verdict"] == "pass"
                                                          else r["reason"][:160]))
        # ---- triage failures ----
        violations = []
        known_lines = []
        inconclusive = [r for r in results.values() if r["verdict"] == "inconclusive"]
        failing = [o for o in obs if results[o["name"]]["verdict"] == "fail"]
        by_witness = {k.get("witness"): k for k in known if k.get("witness")}
        for o in failing:
            r = results[o["name"]]
            if o.get("kind") == "witness":
                k = by_witness.get(o["name"])
                if k:
                    r["verdict"] = "known_finding"
                    known_lines.append("KNOWN-FINDING: property=%s %s" % (prop, k.get("what", k.get("key"))))
                    continue
            data, vals = (None, None)
            if o.get("engine") == "m2s":
                data, vals = r.get("_m2s_bytes"), [{"fn": "model", "bytes": (r.get("_m2s_bytes") or b"").hex()}]
            elif o.get("replay", True):
                data, vals = get_trace(r, o, outdir)
            r["nondet_values"] = vals
            if data is None:
                r["verdict"] = "inconclusive"
                r["reason"] = "counterexample could not be extracted for replay: " + r["reason"]
                inconclusive.append(r)
                continue
            rname = o.get("replay_harness", o.get("harness", o["name"]))
            st, outtxt = replayer.replay(rname, data, release=False, hang=bool(r.get("hang")))
            r["replay_dev"] = st
            if st != "reproduced":
                st2, outtxt2 = replayer.replay(rname, data, release=True, hang=bool(r.get("hang")))
                r["replay_release"] = st2
                if st2 == "reproduced":
                    st, outtxt = st2, outtxt2
            if st == "reproduced":
                rp = save_replay(prop, o, r, data, vals, outtxt)
                r["verdict"] = "violation"
                r["replay_file"] = rp
                violations.append((o, r, rp))
            else:
                r["verdict"] = "inconclusive"
                r["reason"] = "solver counterexample did not reproduce natively (%s); encoding or stub suspect: %s" % (
                    st, r["reason"])
                inconclusive.append(r)
        # witnesses that no longer fail: the finding is gone -> its exclusion must not be used any more
        for o in obs:
            if o.get("kind") == "witness" and results[o["name"]]["verdict"] == "pass":
                k = by_witness.get(o["name"])
                if k:
                    log("[kdrive] witness %s no longer fails: finding '%s' appears repaired; "
                        "its exclusion is ignored (run uses the unrestricted variants)" % (o["name"], k.get("key")))
        for line in known_lines:
            print(line)
        n_pass = sum(1 for r in results.values() if r["verdict"] in ("pass", "known_finding"))
        write_evidence(prop, tier, seed, obs, list(results.values()), time.time() - t_start, len(violations),
                       {"codegen_s": round(cg_s, 1)})
        if violations:
            for o, r, rp in violations:
                print("VIOLATION property=%s replay=%s" % (prop, rp))
                print("  obligation %s: %s" % (o["name"], r["reason"][:300]))
            rc_final = 1
        elif inconclusive:
            for r in inconclusive:
                print("INCONCLUSIVE %s: %s" % (r["name"], r["reason"][:300]))
            rc_final = 2
        else:
            print("OK property=%s tier=%s obligations=%d discharged=%d wall=%.0fs" % (
                prop, tier, len(obs), n_pass, time.time() - t_start))
            rc_final = 0
    finally:
        if keep:
            log("[kdrive] scratch kept at " + scratch)
        else:
            shutil.rmtree(scratch, ignore_errors=True)
    sys.exit(rc_final)


def save_replay(prop, ob, r, data, vals, outtxt):
    d = os.path.join(os.environ.get("VERIF_EVIDENCE_DIR") or os.path.join(VERIF, "evidence"), "replays")
    os.makedirs(d, exist_ok=True)
    p = os.path.join(d, "%s_%s.json" % (prop, ob["name"]))
    json.dump({
        "property": prop, "obligation": ob["name"], "harness_file": "harness/" + ob["file"],
        "failed": r.get("failed"), "nondet_bytes_hex": data.hex(), "nondet_values": vals,
        "native_output_tail": outtxt,
        "how_to_replay": "bin/replay %s %s %s" % (prop, ob["name"], data.hex()),
    }, open(p, "w"), indent=1)
    return p


def write_evidence(prop, tier, seed, obs, results, wall, n_viol, extra):
    evdir = os.environ.get("VERIF_EVIDENCE_DIR") or os.path.join(VERIF, "evidence")
    os.makedirs(evdir, exist_ok=True)
    by = {r["name"]: r for r in results}
    samples = []
    discharged = 0
    nontrivial = 0
    fns = set()
    for o in obs:
        r = by.get(o["name"], {})
        clean = {k: v for k, v in r.items() if not k.startswith("_")}
        if r.get("verdict") in ("pass", "known_finding"):
            discharged += 1
        if r.get("verdict") == "pass" and r.get("harness_assertions_reachable", 0) > 0 and r.get("vccs", 0) > 0:
            nontrivial += 1
        for f in o.get("functions", []):
            fns.add(f)
        samples.append({"obligation": o["name"], "kind": o.get("kind", "main"), "functions": o.get("functions", []),
                        "bound": o.get("bound", ""), "unwind": o.get("unwind"), "unwindset": o.get("unwindset", []),
                        "cuts": o.get("cuts", []), "stubs": o.get("stubs", []), "result": clean})
    ev = {
        "property_id": prop, "tier": tier, "seed": seed, "level": "model_checking",
        "coverage": {
            "evaluations": max(1, len(results)),
            "distinct_nontrivial": nontrivial,
            "rule": "one evaluation = one solver query batch (CBMC/CaDiCaL over the goto program Kani compiled from "
                    "/repo's working tree, or cvc5 over the MIR translation) deciding one obligation for ALL values of its "
                    "symbolic inputs inside the stated bound; non-trivial = verdict 'pass' with at least one reachable "
                    "harness assertion (vacuity witness) and at least one generated VCC; distinct by harness name",
            "samples": samples,
            "obligations": len(obs),
            "discharged": discharged,
            "functions_encoded": sorted(fns),
            # model-checking keys: what the symbolic execution explored, as measured by CBMC on this run
            "states": max(1, sum(int(r.get("steps", 0) or 0) for r in results) + sum(int(r.get("paths", 0) or 0) for r in results)),
            "transitions": max(1, sum(int(r.get("vccs", 0) or 0) for r in results)),
            "traces_validated_against_impl": sum(1 for r in results if r.get("replay_dev") or r.get("replay_release")),
            "states_meaning": "SSA steps of the symbolic program expression (CBMC 'size of program expression'), summed over "
                              "obligations, plus MIR paths of engine M; transitions = generated verification conditions; "
                              "traces_validated_against_impl = solver counterexamples replayed natively in this run",
            "solver_time_s": round(sum(r.get("solver_s", 0) for r in results), 2),
            "symex_time_s": round(sum(r.get("symex_s", 0) for r in results), 2),
            "exhaustive": False,
        },
        "assumptions": obligations_assumptions(obs),
        "wall_s": round(wall, 1),
        "violations": n_viol,
    }
    ev["coverage"].update(extra or {})
    json.dump(ev, open(os.path.join(evdir, prop + ".json"), "w"), indent=1)


def obligations_assumptions(obs):
    a = ["dev-profile semantics (overflow checks on) as compiled by Kani 0.68 from /repo's working tree",
         "trusted: rustc/Kani codegen, CBMC 6.11, CaDiCaL, the short reference models written in harness/*.rs",
         "bounded: every claim holds only inside the per-obligation bound listed under coverage.samples[].bound"]
    cuts = sorted({c for o in obs for c in (o.get("cuts") or [])})
    if cuts:
        a.append("cut X1: drop glue of %s replaced by empty bodies (no observable effect)" % ", ".join(cuts))
    stubs = sorted({s for o in obs for s in (o.get("stubs") or [])})
    for s in stubs:
        a.append("stub: " + s)
    guards = sorted({g for o in obs for g in (o.get("guards") or [])})
    for g in guards:
        a.append("reach-guard (assert-false body; failing = inconclusive): " + g)
    return a


if __name__ == "__main__":
    try:
        main()
    except SystemExit:
        raise
    except BaseException as e:  # noqa  -- a crash of the driver is never a verdict
        import traceback
        traceback.print_exc()
        print("INCONCLUSIVE driver error: %r" % (e,))
        sys.exit(2)
