#!/usr/bin/env python3
"""Builds /verif/.cache/kt-base: Kani artefacts of the dependency crates (not of pdf itself)."""
import os, shutil, sys, tempfile
sys.path.insert(0, os.path.dirname(os.path.abspath(__file__)))
import driver
cache = os.path.join(driver.VERIF, ".cache", "kt-base")
if os.path.isdir(cache):
    print("cache present"); sys.exit(0)
scratch = driver.make_scratch()
try:
    work = os.path.join(scratch, "work")
    driver.copy_repo(work)
    with open(os.path.join(work, "pdf", "src", "lib.rs"), "a") as f:
        f.write("\n#[cfg(kani)]\nmod verif_warm { #[kani::proof] fn warm() { assert!(1 + 1 == 2); } }\n")
    kt = os.path.join(scratch, "kt")
    table, dt, out = driver.codegen(work, kt, ["warm"], os.path.join(scratch, "codegen.log"))
    if table is None:
        print(out[-2000:]); sys.exit(1)
    # drop the pdf crate's own artefacts, keep dependencies
    for root, dirs, files in os.walk(kt):
        for d in list(dirs):
            if d in ("pdf",) and os.path.basename(root) == "build":
                shutil.rmtree(os.path.join(root, d)); dirs.remove(d)
    os.makedirs(os.path.dirname(cache), exist_ok=True)
    shutil.move(kt, cache)
    print("cache built in %.0fs" % dt)
finally:
    shutil.rmtree(scratch, ignore_errors=True)
